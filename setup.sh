#!/bin/sh
# Offline setup: warm the Go build cache for the harness and crd (no network needed).
set -e
cd "$(dirname "$0")"
export GOPROXY=off GOTOOLCHAIN=auto
unset GOSUMDB || true
mkdir -p .work evidence
(cd /repo && GOFLAGS=-mod=readonly go build -o /verif/.work/crd-setup ./cmd) && rm -f .work/crd-setup
(cd harness && GOFLAGS=-mod=mod go vet . >/dev/null 2>&1 || true; GOFLAGS=-mod=mod go test -c -o /verif/.work/harness-setup.test . ) && rm -f .work/harness-setup.test
echo setup ok
