package harness

import (
	"bytes"
	"fmt"
	"sort"
	"strings"
	"testing"

	"pgregory.net/rapid"
	"verifharness/theory"
)

// C05 - one progression, one meaning: degrees vs note names, any key, with key changes.

type C05Case struct {
	Kind  string  `json:"kind"` // notation | transpose
	Items []PItem `json:"items"`
	Key   string  `json:"key"`              // notation: key of the note-name rendering; transpose: first key
	Key2  string  `json:"key2,omitempty"`   // transpose: second key
	Debug bool    `json:"debug,omitempty"`  // notation: both conversions run with --debug (diagnostics on stderr, same result)
	ToOut bool    `json:"to_out,omitempty"` // notation: both conversions write to -o FILE instead of stdout
	Uni   bool    `json:"uni,omitempty"`    // notation: accidentals are written with the Unicode signs in both texts
}

// uniStyle: canonical spelling, but every accidental as its Unicode sign.
type uniStyle struct{ canonStyle }

func (uniStyle) UnicodeAcc() bool { return true }

// convRun runs one `text conv` the way the case says and returns it with the converted document in Stdout.
func (c C05Case) convRun(text string, argv ...string) Result {
	if c.Debug {
		argv = append(argv, "--debug")
	}
	if !c.ToOut {
		return crd(text, argv...)
	}
	res := Run{Argv: append(argv, "-o", "@conv.yml"), Stdin: text, OutArg: "conv.yml"}.Exec()
	if res.Exit == 0 && len(res.Stdout) == 0 {
		res.Stdout = res.OutFile
	}
	return res
}

func checkC05(c C05Case) *Violation {
	switch c.Kind {
	case "notation":
		var st Style = canonStyle{}
		if c.Uni {
			st = uniStyle{}
		}
		deg := Render(DegreeSentence(c.Items), st)
		ss, ok := SyllableSentence(c.Items, c.Key)
		if !ok {
			return vio("harness", "progression not expressible in %s", c.Key)
		}
		syl := Render(ss, st)
		a := c.convRun(deg, "text", "conv", "degree")
		b := c.convRun(syl, "text", "conv", "syllable", "--key", c.Key)
		for _, x := range []Result{a, b} {
			if v := cleanOutcome(x); v != nil {
				return v
			}
		}
		if a.Exit != 0 {
			return vio("degree-text-rejected", "text conv degree refuses %q: %s", deg, firstLines(a.Stderr, 2))
		}
		if b.Exit != 0 {
			return vio("syllable-text-rejected", "text conv syllable --key %s refuses %q (the same progression as %q): %s", c.Key, syl, deg, firstLines(b.Stderr, 2))
		}
		if !bytes.Equal(a.Stdout, b.Stdout) {
			return vio("notation-differs", "one progression, two results\ndegrees:    %q\nnote names: %q (--key %s)\n--- from degrees\n%s--- from note names\n%s", deg, syl, c.Key, clip(string(a.Stdout), 1500), clip(string(b.Stdout), 1500))
		}
		// a {key=..} inside the piece applies from the chord that carries it onwards: the common result, played,
		// must sound what the progression says (checked where the piece changes key at all)
		changes, playable := false, true
		for i, it := range c.Items {
			if i > 0 && it.Key != nil {
				changes = true
			}
			if !it.Rest && !isDisplay(it.Sym) {
				playable = false // a symbol outside the dictionary: `text conv` carries it, `write` would refuse it
			}
		}
		if changes && playable {
			wr := crd(string(b.Stdout), "write", "--key", c.Key)
			if v := cleanOutcome(wr); v != nil {
				return v
			}
			ctx := fmt.Sprintf("\nnote names: %q (--key %s) ->\n%s", syl, c.Key, clip(string(b.Stdout), 1500))
			if wr.Exit != 0 {
				return vio("keychange-refused-by-write", "`crd write` refuses the converted piece: %s%s", firstLines(wr.Stderr, 2), ctx)
			}
			_, song, err := decode(wr.Stdout)
			if err != nil {
				return vio("not-smf", "%v", err)
			}
			d := ProgressionDoc(c.Items)
			k := c.Key
			d.Flags.Key = &k
			if v := comparePitches(d, song); v != nil {
				v.Sig = "keychange-" + v.Sig
				v.Msg += ctx
				return v
			}
		}
	case "transpose":
		d := ProgressionDoc(c.Items)
		k1, k2 := c.Key, c.Key2
		d1, d2 := d, d
		d1.Flags.Key, d2.Flags.Key = &k1, &k2
		_, s1, err := writeDoc(d1)
		if err != nil {
			return vio("write-failed", "%v\n%s", err, d.YAML())
		}
		_, s2, err := writeDoc(d2)
		if err != nil {
			return vio("write-failed", "%v\n%s", err, d.YAML())
		}
		ctx := fmt.Sprintf("\n--key %s vs --key %s\n%s", k1, k2, d.YAML())
		delta := theory.ParseKey(k2).TonicOffset() - theory.ParseKey(k1).TonicOffset()
		// boundary: start of the first instance after 0 that sets a key
		ms := d1.Model(s1.Division)
		var boundary int64 = -1
		var clock int64
		for i, m := range ms {
			if i > 0 && d.Insts[i].Key != nil {
				boundary = clock
				break
			}
			if m.LenLo != m.LenHi {
				return vio("harness", "transpose case with an exact half")
			}
			clock += m.LenLo
		}
		sp1, p1 := pairNotes(s1)
		sp2, p2 := pairNotes(s2)
		if p1 != "" || p2 != "" {
			return vio("pairing", "%s %s%s", p1, p2, ctx)
		}
		var a, b []string
		for _, s := range sp1 {
			p := s.Pitch
			if boundary < 0 || s.On < boundary {
				p += delta
			}
			a = append(a, fmt.Sprintf("%09d-%09d %d", s.On, s.Off, p))
		}
		for _, s := range sp2 {
			b = append(b, fmt.Sprintf("%09d-%09d %d", s.On, s.Off, s.Pitch))
		}
		sort.Strings(a)
		sort.Strings(b)
		if strings.Join(a, "\n") != strings.Join(b, "\n") {
			return vio("transposition", "notes in %s shifted by %d are not the notes in %s (instances after a key change must not move)\n%s%s", k1, delta, k2, diffLines(a, b), ctx)
		}
		// everything else identical, apart from the key signature at tick 0
		o1, e1 := Observed(s1)
		o2, e2 := Observed(s2)
		strip := func(evs []XEv) []string {
			var r []string
			for _, e := range evs {
				if e.Kind == "on" || e.Kind == "off" || (e.Kind == "key" && e.Tick == 0) {
					if e.Kind == "on" {
						r = append(r, fmt.Sprintf("%09d vel %d", e.Tick, e.B))
					}
					continue
				}
				r = append(r, e.String())
			}
			sort.Strings(r)
			return r
		}
		x, y := strip(o1), strip(o2)
		if strings.Join(x, "\n") != strings.Join(y, "\n") {
			return vio("transpose-side-effect", "events other than pitches change with --key\n%s%s", diffLines(x, y), ctx)
		}
		if fmt.Sprint(e1) != fmt.Sprint(e2) {
			return vio("transpose-side-effect", "end of track moves with --key: %v vs %v%s", e1, e2, ctx)
		}
		// key signature at tick 0 is the flag's key
		for _, pr := range []struct {
			o []XEv
			k string
		}{{o1, k1}, {o2, k2}} {
			kk := theory.ParseKey(pr.k)
			mi := 0
			if kk.Minor {
				mi = 1
			}
			found := false
			for _, e := range pr.o {
				if e.Kind == "key" && e.Tick == 0 && e.A == kk.Sig() && e.B == mi {
					found = true
				}
			}
			if !found {
				return vio("keysig-missing", "--key %s: no key signature sf=%d mi=%d at tick 0%s", pr.k, kk.Sig(), mi, ctx)
			}
		}
	}
	return nil
}

func init() { reg("c05", checkC05) }

func c05Classes(ps []PItem, key string) (bool, []string) {
	nt := false
	var cls []string
	for i, p := range ps {
		if p.Key != nil && i > 0 {
			nt = true
			cls = append(cls, "key-change-after-first-item")
			if p.Rest {
				cls = append(cls, "key-change-on-rest")
			}
		}
		if !p.Rest {
			if q := theory.Qual(p.Deg.Qual); q != theory.Major && q != theory.Perfect {
				nt = true
				cls = append(cls, "altered-root")
			}
			if p.Bass != nil {
				if q := theory.Qual(p.Bass.Qual); q != theory.Major && q != theory.Perfect {
					nt = true
					cls = append(cls, "altered-bass")
				}
			}
		}
	}
	return nt && key != "C", dedup(cls)
}

func TestC05(t *testing.T) {
	r := rec("C05")
	defer r.Flush()
	replayCorpus(t, r, "C05")
	nKeys := pick(2, 6)
	rapid.Check(t, func(t *rapid.T) {
		// (a) notation equivalence: the same abstract progression in nKeys keys
		for j := 0; j < nKeys; j++ {
			key := rapid.SampledFrom(theory.ListedKeys).Draw(t, "key")
			o := ProgOpts{MaxItems: pick(8, 20), Syllable: true, KeyChanges: 15, Settings: 10, Texts: 15, RestPct: 20, ExoticSyms: true}
			ps := genProgression(o, key).Draw(t, "prog")
			c := C05Case{Kind: "notation", Items: ps, Key: key, Debug: coin(t, "with-debug", 15), ToOut: coin(t, "to-o-file", 15), Uni: coin(t, "unicode-accidentals", 20)}
			nt, cls := c05Classes(ps, key)
			if c.Debug {
				cls = append(cls, "converted-with---debug")
			}
			if c.ToOut {
				cls = append(cls, "converted-into--o-file")
			}
			r.Case("N"+key+Render(DegreeSentence(ps), canonStyle{}), nt, append(cls, "notation-equivalence")...)
			if j == 0 {
				ss, _ := SyllableSentence(ps, key)
				r.Sample(map[string]any{"key": key, "degrees": Render(DegreeSentence(ps), canonStyle{}), "note_names": Render(ss, canonStyle{})})
			}
			r.Check(t, checkC05(c), "c05", c)
		}
		// (b) transposition: same instances in two keys
		o := ProgOpts{MaxItems: pick(8, 20), Syllable: false, MaxNum: 9, KeyChanges: 15, Settings: 15, Texts: 15, RestPct: 25, SimpleVals: true}
		ps := genProgression(o, "C").Draw(t, "tprog")
		k1 := rapid.SampledFrom(theory.ListedKeys).Draw(t, "k1")
		k2 := rapid.SampledFrom(theory.ListedKeys).Draw(t, "k2")
		c := C05Case{Kind: "transpose", Items: ps, Key: k1, Key2: k2}
		nt, cls := c05Classes(ps, k1)
		r.Case("T"+k1+k2+Render(DegreeSentence(ps), canonStyle{}), (nt || k1 != k2) && k1 != k2, append(cls, "transposition")...)
		r.Check(t, checkC05(c), "c05", c)
	})
	// thorough: all 378 key pairs on a fixed set of documents is approximated by 28x27 ordered pairs on one generated doc per shard
	if thorough() {
		i := 0
		for _, k1 := range theory.ListedKeys {
			for _, k2 := range theory.ListedKeys {
				if k1 < k2 && myShare(i) {
					ps := []PItem{
						{Deg: IV{1, int(theory.Perfect)}, Sym: "maj7", Vals: []Frac{{1, 1}}},
						{Rest: true, Vals: []Frac{{1, 2}}},
						{Deg: IV{5, int(theory.Perfect)}, Sym: "7", Bass: &IV{3, int(theory.Major)}, Vals: []Frac{{2, 1}}},
						{Deg: IV{2, int(theory.Minor)}, Sym: "m", Vals: []Frac{{1, 1}}, Key: strp("F#m")},
						{Deg: IV{4, int(theory.Aug)}, Sym: "dim", Vals: []Frac{{1, 1}}},
					}
					c := C05Case{Kind: "transpose", Items: ps, Key: k1, Key2: k2}
					r.CaseBC(true, "all-key-pairs")
					r.Check(t, checkC05(c), "c05", c)
				}
				if k1 < k2 {
					i++
				}
			}
		}
		r.MarkExhaustive("all 378 unordered key pairs on a fixed five-instance document (transposition)")
	}
}

func strp(s string) *string { return &s }

func isDisplay(sym string) bool {
	for _, d := range theory.Displays {
		if d == sym {
			return true
		}
	}
	return false
}
