package harness

import (
	"fmt"
	"math/big"
	"sort"
	"strings"
	"unicode"

	"pgregory.net/rapid"
	"verifharness/smfread"
	"verifharness/theory"
)

// ------------------------------------------------------------ document model

type Frac struct {
	N int `json:"n"`
	D int `json:"d"`
}

func (f Frac) String() string {
	if f.D == 1 {
		return fmt.Sprint(f.N)
	}
	return fmt.Sprintf("%d/%d", f.N, f.D)
}

type IV struct {
	Num  int `json:"num"`
	Qual int `json:"qual"`
}

func (i IV) T() theory.Interval { return theory.Interval{Num: i.Num, Qual: theory.Qual(i.Qual)} }
func ivOf(t theory.Interval) IV { return IV{t.Num, int(t.Qual)} }

type ChordSpec struct {
	Deg    IV     `json:"deg"`
	Sym    string `json:"sym"`            // display symbol
	Long   bool   `json:"long,omitempty"` // written by long name
	Bass   *IV    `json:"bass,omitempty"`
	Suffix bool   `json:"suffix,omitempty"` // interval written in suffix form (3b) instead of prefix (b3)
	Short  bool   `json:"short,omitempty"`  // a diminished 1/4/5/8/11/12/15 written with one flat (b5, b12): there is no minor form it could mean
}

// spellIV writes an interval of this chord the way the chord spells its intervals.
func (c ChordSpec) spellIV(iv IV) string {
	s := ivText(iv, c.Suffix)
	if c.Short && theory.Qual(iv.Qual) == theory.Dim {
		switch (iv.Num - 1) % 7 {
		case 0, 3, 4:
			s = strings.Replace(s, "bb", "b", 1)
		}
	}
	return s
}

type Inst struct {
	Chord  *ChordSpec        `json:"chord,omitempty"`
	Values []Frac            `json:"values"`
	BPM    *int              `json:"bpm,omitempty"`
	Vel    *string           `json:"vel,omitempty"`
	Meter  *Frac             `json:"meter,omitempty"`
	Key    *string           `json:"key,omitempty"`
	Txt    map[string]string `json:"txt,omitempty"` // txt / lic / mrk (and arbitrary other keys)
	Pad    int               `json:"pad,omitempty"` // the duration numbers are written with this many leading zeros ("010/016" is 10/16)
}

// padNum writes the number inside an interval ("b10") or a tempo with the instance's leading zeros ("b010", "0120").
func (d Inst) padNum(s string) string {
	if d.Pad == 0 {
		return s
	}
	i := strings.IndexAny(s, "0123456789")
	if i < 0 {
		return s
	}
	return s[:i] + strings.Repeat("0", d.Pad) + s[i:]
}

func (d Inst) ypPad(s string) string {
	if d.Pad > 0 {
		return yq(d.padNum(s))
	}
	return yp(s)
}

// spell writes a duration the way the document spells it.
func (d Inst) spell(v Frac) string {
	z := strings.Repeat("0", d.Pad)
	if v.D == 1 && d.Pad == 0 {
		return fmt.Sprint(v.N)
	}
	if v.D == 1 {
		return z + fmt.Sprint(v.N)
	}
	return fmt.Sprintf("%s%d/%s%d", z, v.N, z, v.D)
}

// flagSyntax writes one flag in one of the spellings the command line accepts.
func flagSyntax(style int, long, short, val string) []string {
	switch style % 4 {
	case 1:
		return []string{"--" + long + "=" + val}
	case 2:
		if short != "" {
			return []string{"-" + short, val}
		}
	case 3:
		if short != "" && val != "" {
			return []string{"-" + short + val}
		}
	}
	return []string{"--" + long, val}
}

type Flags struct {
	Key        *string `json:"key,omitempty"`
	Vel        *string `json:"vel,omitempty"`
	BPM        *int    `json:"bpm,omitempty"`
	Meter      *Frac   `json:"meter,omitempty"`
	Track      int     `json:"track"`
	Instrument *string `json:"instrument,omitempty"`
	Program    *int    `json:"program,omitempty"`
	Syntax     int     `json:"syntax,omitempty"` // 0: --flag value; 1: --flag=value; 2: -k value; 3: -kvalue (where a short form exists)
}

type Doc struct {
	Insts []Inst `json:"insts"`
	Flags Flags  `json:"flags"`
	Plain bool   `json:"plain,omitempty"` // written in block style with plain (unquoted) scalars where YAML allows, as in crd's own documentation
}

// ------------------------------------------------------------- YAML emitter

// yq writes a YAML double-quoted scalar. JSON quoting is not enough: raw
// U+0085 / U+2028 / U+2029 inside double quotes are YAML line breaks.
func yq(s string) string {
	var sb strings.Builder
	sb.WriteByte('"')
	for _, r := range s {
		switch {
		case r == '"' || r == '\\':
			sb.WriteByte('\\')
			sb.WriteRune(r)
		case r < 0x20 || (r >= 0x7f && r <= 0xa0) || r == 0x2028 || r == 0x2029 || r == 0xfeff || r >= 0xfffd && r <= 0xffff:
			fmt.Fprintf(&sb, "\\u%04X", r)
		case r > 0xffff:
			fmt.Fprintf(&sb, "\\U%08X", r)
		default:
			sb.WriteRune(r)
		}
	}
	sb.WriteByte('"')
	return sb.String()
}

func ivText(iv IV, suffix bool) string {
	t := iv.T()
	if !suffix {
		return t.Notation()
	}
	pre := strings.TrimRight(t.Notation(), "0123456789")
	return fmt.Sprintf("%d%s", t.Num, pre)
}

func (c ChordSpec) name() string {
	if c.Long {
		return theory.LongNames[c.Sym]
	}
	return c.Sym
}

func (d Inst) yaml() string {
	var sb strings.Builder
	sb.WriteString("- values: [")
	for i, v := range d.Values {
		if i > 0 {
			sb.WriteString(", ")
		}
		sb.WriteString(yq(d.spell(v)))
	}
	sb.WriteString("]\n")
	if c := d.Chord; c != nil {
		sb.WriteString(fmt.Sprintf("  chord: {degree: %s, name: %s", yq(d.padNum(c.spellIV(c.Deg))), yq(c.name())))
		if c.Bass != nil {
			sb.WriteString(fmt.Sprintf(", base: %s", yq(d.padNum(c.spellIV(*c.Bass)))))
		}
		sb.WriteString("}\n")
	}
	if d.BPM != nil {
		sb.WriteString(fmt.Sprintf("  bpm: %s\n", d.padNum(fmt.Sprint(*d.BPM))))
	}
	if d.Vel != nil {
		sb.WriteString(fmt.Sprintf("  velocity: %s\n", yq(*d.Vel)))
	}
	if d.Meter != nil {
		sb.WriteString(fmt.Sprintf("  meter: %s\n", yq(d.Meter.String())))
	}
	if d.Key != nil {
		sb.WriteString(fmt.Sprintf("  key: %s\n", yq(*d.Key)))
	}
	if d.Txt != nil {
		sb.WriteString("  meta: {")
		keys := make([]string, 0, len(d.Txt))
		for k := range d.Txt {
			keys = append(keys, k)
		}
		sort.Strings(keys)
		for i, k := range keys {
			if i > 0 {
				sb.WriteString(", ")
			}
			sb.WriteString(fmt.Sprintf("%s: %s", yq(k), yq(d.Txt[k])))
		}
		sb.WriteString("}\n")
	}
	return sb.String()
}

func (d Doc) YAML() string {
	var sb strings.Builder
	for _, i := range d.Insts {
		if d.Plain {
			sb.WriteString(i.yamlPlain())
		} else {
			sb.WriteString(i.yaml())
		}
	}
	return sb.String()
}

// yp writes a scalar plain when that is unambiguous in YAML 1.1/1.2 for the way crd reads it
// (digits, fractions, letters with an inner or trailing #), else double-quoted.
func yp(s string) string {
	if s == "" {
		return yq(s)
	}
	for i, r := range s {
		ok := r >= '0' && r <= '9' || r >= 'a' && r <= 'z' || r >= 'A' && r <= 'Z' || (i > 0 && (r == '/' || r == '#'))
		if !ok {
			return yq(s)
		}
	}
	switch strings.ToLower(s) {
	case "y", "n", "yes", "no", "true", "false", "on", "off", "null":
		return yq(s)
	}
	return s
}

// yamlPlain: block style, the layout of the example in `crd write --help`.
func (d Inst) yamlPlain() string {
	var sb strings.Builder
	first := true
	item := func(f string, a ...any) {
		if first {
			sb.WriteString("- ")
			first = false
		} else {
			sb.WriteString("  ")
		}
		sb.WriteString(fmt.Sprintf(f, a...))
	}
	if c := d.Chord; c != nil {
		item("chord:\n")
		sb.WriteString(fmt.Sprintf("    degree: %s\n    name: %s\n", d.ypPad(c.spellIV(c.Deg)), yq(c.name())))
		if c.Bass != nil {
			sb.WriteString(fmt.Sprintf("    base: %s\n", d.ypPad(c.spellIV(*c.Bass))))
		}
	}
	if len(d.Values) == 0 {
		item("values: []\n")
	} else {
		item("values:\n")
		for _, v := range d.Values {
			if d.Pad > 0 {
				sb.WriteString("    - " + yq(d.spell(v)) + "\n") // quoted: a plain 010 is a YAML 1.1 octal integer to some readers
			} else {
				sb.WriteString("    - " + yp(v.String()) + "\n")
			}
		}
	}
	if d.BPM != nil {
		item("bpm: %s\n", d.padNum(fmt.Sprint(*d.BPM)))
	}
	if d.Vel != nil {
		item("velocity: %s\n", yp(*d.Vel))
	}
	if d.Meter != nil {
		item("meter: %s\n", yp(d.Meter.String()))
	}
	if d.Key != nil {
		item("key: %s\n", yp(*d.Key))
	}
	if d.Txt != nil {
		keys := make([]string, 0, len(d.Txt))
		for k := range d.Txt {
			keys = append(keys, k)
		}
		sort.Strings(keys)
		if len(keys) == 0 {
			item("meta: {}\n")
		} else {
			item("meta:\n")
			for _, k := range keys {
				sb.WriteString(fmt.Sprintf("    %s: %s\n", yp(k), yq(d.Txt[k])))
			}
		}
	}
	return sb.String()
}

func (f Flags) Argv() []string {
	var a []string
	if f.Key != nil {
		a = append(a, flagSyntax(f.Syntax, "key", "k", *f.Key)...)
	}
	if f.Vel != nil {
		a = append(a, flagSyntax(f.Syntax, "velocity", "", *f.Vel)...)
	}
	if f.BPM != nil {
		a = append(a, flagSyntax(f.Syntax, "bpm", "", fmt.Sprint(*f.BPM))...)
	}
	if f.Meter != nil {
		a = append(a, flagSyntax(f.Syntax, "meter", "", f.Meter.String())...)
	}
	if f.Track != 1 && f.Track != 0 {
		a = append(a, "--track", fmt.Sprint(f.Track))
	}
	if f.Instrument != nil {
		a = append(a, "--instrument", *f.Instrument)
	}
	if f.Program != nil {
		a = append(a, "--program", fmt.Sprint(*f.Program))
	}
	return a
}

// --------------------------------------------------------------- generators

// coin draws a weighted boolean from an explicit pool (rapid's integer
// generators are biased towards small values, so IntRange(0,99) < p is not
// a p% coin).
func coin(t *rapid.T, label string, pct int) bool {
	// seven fair bits give a uniform number 0..127 (rapid's integer and SampledFrom generators favour small
	// values, fair booleans do not); true for the top pct percent, so that shrinking moves towards false
	n := 0
	for i := 0; i < 7; i++ {
		if rapid.Bool().Draw(t, label) {
			n |= 1 << i
		}
	}
	return n >= 128-(pct*128+50)/100
}

func opt[T any](t *rapid.T, label string, pct int, g *rapid.Generator[T]) *T {
	if coin(t, label+"?", pct) {
		v := g.Draw(t, label)
		return &v
	}
	return nil
}

// genInterval constructs an existing interval with number 1..maxNum.
func genInterval(maxNum int) *rapid.Generator[IV] {
	return rapid.Custom(func(t *rapid.T) IV {
		n := rapid.IntRange(1, maxNum).Draw(t, "num")
		qs := theory.QualsFor(n)
		return IV{n, int(rapid.SampledFrom(qs).Draw(t, "qual"))}
	})
}

var denPool = []int{1, 1, 1, 2, 2, 3, 4, 4, 5, 6, 7, 8, 9, 11, 12, 13, 16, 32, 64, 960, 1000, 1920}

// genValues constructs 1..4 fractions with at most two distinct denominators
// whose product is <= 4e6, numerators small except at most one big one (<=
// 3000): inside this bound IEEE double arithmetic rounds like exact
// arithmetic except at exact halves (see DESIGN C02).
func genValues(maxFracs int) *rapid.Generator[[]Frac] {
	return rapid.Custom(func(t *rapid.T) []Frac {
		pickDen := func(label string) int {
			if coin(t, label+"-free", 20) {
				return rapid.IntRange(1, 2000).Draw(t, label)
			}
			return rapid.SampledFrom(denPool).Draw(t, label+"-pool")
		}
		d1 := pickDen("d1")
		d2 := pickDen("d2")
		n := rapid.SampledFrom([]int{1, 1, 1, 2, 2, 3, 4}).Draw(t, "nfrac")
		if n > maxFracs {
			n = maxFracs
		}
		if maxFracs >= 4 && coin(t, "many-fractions", 8) {
			// a long tie: 5..16 fractions over one denominator (still exact: one denominator, tiny float error)
			k := rapid.IntRange(5, 16).Draw(t, "nmany")
			d := rapid.SampledFrom([]int{4, 7, 16, 100, 480, 960, 1000, 1921, 9973}).Draw(t, "dmany")
			var vs []Frac
			for i := 0; i < k; i++ {
				vs = append(vs, Frac{rapid.IntRange(1, 9).Draw(t, "nm"), d})
			}
			return vs
		}
		big := -1
		if coin(t, "bignum", 10) {
			big = rapid.IntRange(0, n-1).Draw(t, "bigidx")
		}
		var vs []Frac
		for i := 0; i < n; i++ {
			d := d1
			if i > 0 && coin(t, "second-den", 50) {
				d = d2
			}
			num := rapid.IntRange(1, 12).Draw(t, "n")
			if i == big {
				num = rapid.IntRange(13, 3000).Draw(t, "nbig")
			}
			vs = append(vs, Frac{num, d})
		}
		return vs
	})
}

var unicodeLetters = []rune("éüß日本語🎵♯♭Ωж")

// anyLetters: words in any script (the code points, not a hand-picked handful, decide what a byte-oriented shortcut breaks)
var anyLetters = rapid.StringOfN(rapid.RuneFrom(nil, unicode.Han, unicode.Latin, unicode.Cyrillic, unicode.Greek, unicode.Hiragana, unicode.Katakana, unicode.Hangul, unicode.Arabic, unicode.Hebrew, unicode.Devanagari, unicode.Thai), 1, 8, -1)

var textPool = []string{"a: b", "- x", "#h", "trail ", "multi\nline", "\"q\"", "true", "null", "~", "é日本🎵", "{x}", "a,b", "k=v", "|", ">", "'", "&a", "*a", "!t", "%", "@", "`", "a\u0085b", "a b", "x\x01y", "tab\there", " ", "[1]", "key: C", "0", "1e3", "0x10", "yes", "a #c", "C#m7", "♯♭"}

// genText: free text for txt/lic/mrk. Texts that start with whitespace AND
// contain a line break are not produced (yaml.v3 cannot round-trip them; see
// DESIGN C10) - construction, not rejection.
// longText: a text whose length needs more than one byte of a meta event's variable-length length field (128 bytes
// and more), in ASCII or in three-byte characters
var longText = rapid.Custom(func(t *rapid.T) string {
	if !coin(t, "really-long", 20) {
		return rapid.SampledFrom([]string{"la", "verse two", "\u6b4c\u8a5e"}).Draw(t, "not-long")
	}
	unit := rapid.SampledFrom([]string{"la ", "verse two second line ", "\u6b4c\u8a5e", "\u00e9t\u00e9 "}).Draw(t, "long-unit")
	n := rapid.SampledFrom([]int{120, 127, 128, 129, 130, 200, 255, 256, 300, 1000, 16383, 16384, 20000}).Draw(t, "long-bytes")
	s := strings.Repeat(unit, n/len(unit)+1)
	return strings.TrimRight(s, " ") + "."
})

var genText = rapid.OneOf(
	rapid.StringMatching(`[a-zA-Z0-9][a-zA-Z0-9 ]{0,11}`),
	rapid.StringOfN(rapid.RuneFrom(unicodeLetters), 1, 10, -1),
	anyLetters,
	rapid.SampledFrom(textPool),
	rapid.StringMatching(`[a-z:#\-{}\[\]&*!|>'"%@, ]{1,10}`),
	longText,
)

type DocOpts struct {
	MaxInsts   int
	MaxIvNum   int  // degree/bass number bound (15)
	Settings   int  // percent chance of each setting on an instance
	Meta       int  // percent chance of a meta map
	RestPct    int  // percent of rests
	MultiTrack bool // draw --track > 1
	MaxTrack   int
	FlagsPct   int
	SimpleVals bool // durations from small integers and halves only
	Suffix     bool // allow suffix interval notation
}

var genMeter = rapid.Custom(func(t *rapid.T) Frac {
	return Frac{rapid.IntRange(1, 255).Draw(t, "mn"), 1 << rapid.IntRange(0, 7).Draw(t, "mk")}
})

var genBPM = rapid.OneOf(rapid.IntRange(4, 300), rapid.IntRange(4, 60000), rapid.SampledFrom([]int{4, 5, 59, 60, 61, 100, 119, 120, 121, 60000, 59999, 7, 13, 333}))

func genInst(o DocOpts) *rapid.Generator[Inst] {
	return rapid.Custom(func(t *rapid.T) Inst {
		var in Inst
		if !coin(t, "rest", o.RestPct) {
			c := &ChordSpec{Deg: genInterval(o.MaxIvNum).Draw(t, "deg"), Sym: rapid.SampledFrom(theory.Displays).Draw(t, "sym"), Long: coin(t, "long", 30)}
			c.Bass = opt(t, "bass", 40, genInterval(o.MaxIvNum))
			c.Short = coin(t, "short-diminished", 30)
			if o.Suffix {
				c.Suffix = coin(t, "suffix", 25)
			}
			in.Chord = c
		}
		if o.SimpleVals {
			in.Values = []Frac{{rapid.IntRange(1, 4).Draw(t, "sv"), rapid.SampledFrom([]int{1, 1, 2, 4}).Draw(t, "sd")}}
		} else {
			in.Values = genValues(4).Draw(t, "values")
		}
		if coin(t, "zero-padded-numbers", 5) {
			in.Pad = rapid.IntRange(1, 3).Draw(t, "pad") // durations, interval numbers and the tempo written like 010
		}
		in.BPM = opt(t, "bpm", o.Settings, genBPM)
		in.Vel = opt(t, "vel", o.Settings, rapid.SampledFrom(theory.Dynamics))
		in.Meter = opt(t, "meter", o.Settings, genMeter)
		in.Key = opt(t, "key", o.Settings, rapid.SampledFrom(theory.ListedKeys))
		if in.Key != nil && in.Chord == nil && coin(t, "key-only-on-rest", 50) {
			// a rest whose only job is to carry the modulation
			in.BPM, in.Vel, in.Meter = nil, nil, nil
		}
		if coin(t, "meta", o.Meta) {
			in.Txt = map[string]string{}
			if coin(t, "single-text", 40) {
				k := rapid.SampledFrom([]string{"txt", "lic", "mrk"}).Draw(t, "which-text")
				in.Txt[k] = genText.Draw(t, k)
			} else {
				for _, k := range []string{"txt", "lic", "mrk"} {
					if v := opt(t, k, 50, genText); v != nil {
						in.Txt[k] = *v
					}
				}
			}
			if coin(t, "othermeta", 15) {
				in.Txt["zz"] = genText.Draw(t, "zz")
			}
		}
		return in
	})
}

func genFlags(o DocOpts) *rapid.Generator[Flags] {
	return rapid.Custom(func(t *rapid.T) Flags {
		var f Flags
		f.Key = opt(t, "fkey", o.FlagsPct, rapid.SampledFrom(theory.ListedKeys))
		f.Vel = opt(t, "fvel", o.FlagsPct/2, rapid.SampledFrom(theory.Dynamics))
		f.BPM = opt(t, "fbpm", o.FlagsPct/2, genBPM)
		f.Meter = opt(t, "fmeter", o.FlagsPct/2, genMeter)
		f.Syntax = rapid.IntRange(0, 3).Draw(t, "flag-syntax")
		f.Track = 1
		if o.MultiTrack && coin(t, "multitrack", 60) {
			f.Track = rapid.OneOf(rapid.SampledFrom([]int{2, 2, 3, 4, 5, 6}), rapid.IntRange(2, o.MaxTrack)).Draw(t, "track")
		}
		return f
	})
}

func genDoc(o DocOpts) *rapid.Generator[Doc] {
	return rapid.Custom(func(t *rapid.T) Doc {
		var d Doc
		d.Insts = rapid.SliceOfN(genInst(o), 1, o.MaxInsts).Draw(t, "insts")
		if coin(t, "long-document", 3) {
			// a real-size piece: hundreds of instances (the earlier ones repeated with variations of length)
			n := rapid.IntRange(70, 320).Draw(t, "long-len")
			base := len(d.Insts)
			for len(d.Insts) < n {
				x := d.Insts[len(d.Insts)%base]
				x.BPM, x.Meter, x.Key, x.Vel, x.Txt = nil, nil, nil, nil, nil
				d.Insts = append(d.Insts, x)
			}
		}
		// restatements: a later instance sets a value that is already in force (section heads do that)
		if len(d.Insts) > 1 && coin(t, "restate", 30) {
			var bpm *int
			var vel, key *string
			var meter *Frac
			var txt map[string]string
			for i := range d.Insts {
				in := &d.Insts[i]
				if i > 0 && coin(t, "restate-here", 35) {
					if in.BPM != nil && bpm != nil {
						v := *bpm
						in.BPM = &v
					}
					if in.Meter != nil && meter != nil {
						v := *meter
						in.Meter = &v
					}
					if in.Key != nil && key != nil {
						v := *key
						in.Key = &v
					}
					if in.Vel != nil && vel != nil {
						v := *vel
						in.Vel = &v
					}
					if in.Txt != nil && txt != nil {
						in.Txt = map[string]string{}
						for k, v := range txt {
							in.Txt[k] = v
						}
					}
				}
				if in.BPM != nil {
					bpm = in.BPM
				}
				if in.Meter != nil {
					meter = in.Meter
				}
				if in.Key != nil {
					key = in.Key
				}
				if in.Vel != nil {
					vel = in.Vel
				}
				if in.Txt != nil {
					txt = in.Txt
				}
			}
		}
		hasChord := false
		for _, in := range d.Insts {
			if in.Chord != nil {
				hasChord = true
			}
		}
		_ = hasChord // `write` accepts documents made of rests only
		if o.Meta > 0 && coin(t, "closing-rest-with-text", 4) {
			// the piece ends on a rest that carries a text ending in line breaks: in crd's own printing that text is
			// the last scalar of the document, a block scalar whose final line breaks are the last bytes of the file
			k := rapid.SampledFrom([]string{"mrk", "lic", "txt"}).Draw(t, "closing-key")
			v := rapid.SampledFrom([]string{"fine\n", "la\n\n", "end of part 1\n", "x\n\n\n"}).Draw(t, "closing-text")
			d.Insts = append(d.Insts, Inst{Values: []Frac{{1, 1}}, Txt: map[string]string{k: v}})
		}
		capTotal(&d)
		d.Flags = genFlags(o).Draw(t, "flags")
		d.Plain = coin(t, "plain-yaml", 35)
		return d
	})
}

// capTotal keeps a generated piece inside the domain the timing properties
// quantify over ("as long as the total stays below 2^28 ticks"): trailing
// instances are dropped until the exact total is below 2^28 - 2^16 ticks at
// 960 ticks per quarter. A silence that long cannot be written as one MIDI
// delta time and crd refuses it; C06 and C08 build such pieces on purpose, as
// classes of their own where a refusal is accepted.
func capTotal(d *Doc) {
	limit := big.NewRat(1<<28-1<<16, 960) // in units of the values (quarter notes)
	sum := new(big.Rat)
	for i, in := range d.Insts {
		for _, v := range in.Values {
			sum.Add(sum, big.NewRat(int64(v.N), int64(v.D)))
		}
		if sum.Cmp(limit) >= 0 && i > 0 {
			d.Insts = d.Insts[:i:i]
			return
		}
	}
}

// beyondDelta: the piece is longer than the largest delta time an SMF can hold (0x0FFFFFFF ticks at 960 per
// quarter). Only then may `write` refuse it: some track may have to stay silent for the whole piece. A piece
// that fits has no delta above the limit on any track, so a refusal of it is a violation.
func beyondDelta(d Doc) bool {
	var total int64
	for _, in := range d.Insts {
		_, hi := ticksOf(in.Values, 960)
		total += hi
		if total > 0x0FFFFFFF {
			return true
		}
	}
	return false
}

// -------------------------------------------------------------------- model

// XEv is an event of the expected / observed music, track-independent.
type XEv struct {
	Tick int64
	Kind string // on off tempo meter key text lyric marker
	A, B int
	S    string
}

func (e XEv) String() string {
	return fmt.Sprintf("%09d %s %d %d %q", e.Tick, e.Kind, e.A, e.B, e.S)
}

// ticksOf returns the admissible lengths in ticks of an instance: round(div x
// sum), both neighbours at an exact half.
func ticksOf(vals []Frac, div int) (lo, hi int64) {
	sum := new(big.Rat)
	for _, v := range vals {
		sum.Add(sum, big.NewRat(int64(v.N), int64(v.D)))
	}
	sum.Mul(sum, big.NewRat(int64(div), 1))
	fl := new(big.Int).Div(sum.Num(), sum.Denom())
	frac := new(big.Rat).Sub(sum, new(big.Rat).SetInt(fl))
	switch frac.Cmp(big.NewRat(1, 2)) {
	case -1:
		return fl.Int64(), fl.Int64()
	case 1:
		return fl.Int64() + 1, fl.Int64() + 1
	}
	return fl.Int64(), fl.Int64() + 1
}

// InstModel is what the model says about one instance.
type InstModel struct {
	LenLo, LenHi int64
	Key          theory.Key // key in force
	Vel          string     // dynamic in force
	Notes        []int      // expected pitches (bass first), nil for a rest
	Tempo        *int       // bpm stated at this instance's start
	Meter        *Frac
	KeySig       *theory.Key
	Texts        []XEv // text/lyric/marker at this instance (Tick unset)
}

// Model computes, instance by instance, what the document means.
func (d Doc) Model(div int) []InstModel {
	key := theory.ParseKey("C")
	vel := "mp"
	ms := make([]InstModel, len(d.Insts))
	for i, in := range d.Insts {
		bpm, meter, k, v := in.BPM, in.Meter, in.Key, in.Vel
		if i == 0 {
			fl := d.Flags
			if fl.BPM != nil {
				bpm = fl.BPM
			}
			if fl.Meter != nil {
				meter = fl.Meter
			}
			if fl.Key != nil {
				k = fl.Key
			}
			if fl.Vel != nil {
				v = fl.Vel
			}
			if bpm == nil {
				x := 100
				bpm = &x
			}
			if meter == nil {
				meter = &Frac{4, 4}
			}
			if k == nil {
				c := "C"
				k = &c
			}
		}
		m := &ms[i]
		m.Tempo, m.Meter = bpm, meter
		if k != nil {
			key = theory.ParseKey(*k)
			kk := key
			m.KeySig = &kk
		}
		if v != nil {
			vel = *v
		}
		m.Key, m.Vel = key, vel
		for _, kk := range [][2]string{{"txt", "text"}, {"lic", "lyric"}, {"mrk", "marker"}} {
			if s, ok := in.Txt[kk[0]]; ok && s != "" {
				m.Texts = append(m.Texts, XEv{Kind: kk[1], S: s})
			}
		}
		m.LenLo, m.LenHi = ticksOf(in.Values, div)
		if c := in.Chord; c != nil {
			root := 60 + key.TonicOffset() + c.Deg.T().Semis()
			bass := theory.Interval{Num: 1, Qual: theory.Perfect}
			if c.Bass != nil {
				bass = c.Bass.T()
			}
			m.Notes = []int{root + bass.Semis() - 12}
			for _, s := range theory.ChordTable[c.Sym] {
				m.Notes = append(m.Notes, root+s)
			}
		}
	}
	return ms
}

// DynVelOrder: dynamics from soft to loud; the property demands strictly
// increasing velocities, the concrete values are read from the output.

// Song decoding helpers -------------------------------------------------------

// Observed flattens a decoded song into track-independent events.
func Observed(s *smfread.Song) (evs []XEv, eots []int64) {
	for _, tr := range s.Tracks {
		for _, e := range tr {
			switch {
			case e.IsNoteOn():
				evs = append(evs, XEv{Tick: e.Tick, Kind: "on", A: int(e.D1), B: int(e.D2)})
			case e.IsNoteOff():
				evs = append(evs, XEv{Tick: e.Tick, Kind: "off", A: int(e.D1)})
			case e.Status == 0xFF:
				switch e.Meta {
				case 0x2F:
					eots = append(eots, e.Tick)
				case 0x51:
					if len(e.Data) == 3 {
						us := int(e.Data[0])<<16 | int(e.Data[1])<<8 | int(e.Data[2])
						evs = append(evs, XEv{Tick: e.Tick, Kind: "tempo", A: us})
					}
				case 0x58:
					if len(e.Data) >= 2 {
						evs = append(evs, XEv{Tick: e.Tick, Kind: "meter", A: int(e.Data[0]), B: int(e.Data[1])})
					}
				case 0x59:
					if len(e.Data) == 2 {
						evs = append(evs, XEv{Tick: e.Tick, Kind: "key", A: int(int8(e.Data[0])), B: int(e.Data[1])})
					}
				case 0x01:
					evs = append(evs, XEv{Tick: e.Tick, Kind: "text", S: string(e.Data)})
				case 0x05:
					evs = append(evs, XEv{Tick: e.Tick, Kind: "lyric", S: string(e.Data)})
				case 0x06:
					evs = append(evs, XEv{Tick: e.Tick, Kind: "marker", S: string(e.Data)})
				}
			}
		}
	}
	return
}

func canon(evs []XEv, kinds ...string) []string {
	want := map[string]bool{}
	for _, k := range kinds {
		want[k] = true
	}
	var r []string
	for _, e := range evs {
		if len(kinds) == 0 || want[e.Kind] {
			r = append(r, e.String())
		}
	}
	sort.Strings(r)
	return r
}

// writeDoc runs `crd write` on the document and decodes the result.
func writeDoc(d Doc, extra ...string) (Result, *smfread.Song, error) {
	argv := append([]string{"write"}, d.Flags.Argv()...)
	argv = append(argv, extra...)
	res := crd(d.YAML(), argv...)
	if res.TimedOut || res.Crashed() || res.Exit != 0 {
		return res, nil, fmt.Errorf("write failed: exit=%d timeout=%v stderr=%s", res.Exit, res.TimedOut, res.Stderr)
	}
	song, err := smfread.ReadSMF(res.Stdout)
	if err != nil {
		return res, nil, fmt.Errorf("output is not an SMF: %v", err)
	}
	return res, song, nil
}

func decode(b []byte) (Result, *smfread.Song, error) {
	song, err := smfread.ReadSMF(b)
	return Result{}, song, err
}
