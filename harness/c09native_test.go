package harness

import (
	"bytes"
	"fmt"
	"testing"

	"github.com/berquerant/crd/astconv"
	"github.com/berquerant/crd/chord"
	"github.com/berquerant/crd/input"
	"github.com/berquerant/crd/midix"
	"github.com/berquerant/crd/op"
	"github.com/berquerant/crd/play"
	"gopkg.in/yaml.v3"
)

// C09 generator 3: coverage-guided in-process fuzz targets (thorough tier).
// They replicate a thin slice of the cmd glue (package main cannot be
// imported); the oracle is "no panic, no non-termination".

type C09Native struct {
	Target string `json:"target"`
	Data   []byte `json:"data"`
	Key    string `json:"key,omitempty"`
}

func nativeText(data []byte, key string) (v *Violation) {
	defer func() {
		if r := recover(); r != nil {
			if _, is := r.(hangSentinel); is {
				v = vio("native-hang:text", "lexer does not stop at end of input %q", clip(string(data), 200))
				return
			}
			v = vio("native-panic:text", "panic on %q: %v", clip(string(data), 200), r)
		}
	}()
	tree, err, hang := implParse(string(data))
	if hang {
		return vio("native-hang:text", "lexer does not stop at end of input %q", clip(string(data), 200))
	}
	if err != nil || tree == nil {
		return nil
	}
	if _, err := astconv.NewASTClassifier().Classify(tree); err != nil {
		return nil
	}
	k, err := op.ParseKey(key)
	if err != nil {
		k = op.MustParseKey("C")
	}
	convs := []astconv.Converter{astconv.NewDegreeASTConverter()}
	if scale, err := op.NewScale(k); err == nil {
		convs = append(convs, astconv.NewSyllableASTConverter(scale))
	}
	for _, cv := range convs {
		var out []*input.Instance
		ok := true
		for _, x := range tree.List {
			y, err := cv.Convert(x)
			if err != nil {
				ok = false
				break
			}
			out = append(out, y)
		}
		if ok {
			if _, err := yaml.Marshal(out); err != nil {
				return vio("native-marshal", "cannot marshal the conversion of %q: %v", clip(string(data), 200), err)
			}
		}
	}
	return nil
}

func builtinBuilder() *chord.Builder {
	b := chord.NewBuilder()
	for _, x := range chord.BasicAttributes() {
		b.Attribute(x)
	}
	for _, x := range chord.BasicChords() {
		b.Chord(x)
	}
	return b
}

func playInstances(cmap chord.Mapper, in []*input.Instance, tracks int) error {
	instances := make([]op.Instance, len(in))
	for i, x := range in {
		if x == nil {
			return fmt.Errorf("instance[%d] is empty", i)
		}
		v := op.Instance{Values: x.Values, BPM: x.BPM, Velocity: x.Velocity, Meter: x.Meter, Key: x.Key, Meta: x.Meta}
		if c := x.Chord; c != nil {
			cd, ok := cmap.GetChord(c.Chord)
			if !ok {
				return fmt.Errorf("chord %s not found", c.Chord)
			}
			y := op.NewChord(c.Degree, cd, c.Base)
			v.Chord = &y
		}
		instances[i] = v
	}
	set, err := midix.NewTrackSetControllerFromTrackNum(tracks)
	if err != nil {
		return err
	}
	mw := midix.NewWriter(midix.DefaultTicksPerQuoaterNote, set, midix.DefaultInstrument, midix.DefaultProgram)
	w := play.NewWriter(cmap, func(k op.Key) play.Key { return play.NewKey(k, cmap) })
	if err := w.Write(mw, instances); err != nil {
		return err
	}
	var buf bytes.Buffer
	_, err = mw.WriteTo(&buf)
	return err
}

func nativeYAML(data []byte, tracks int) (v *Violation) {
	defer func() {
		if r := recover(); r != nil {
			v = vio("native-panic:yaml", "panic on instances document %q: %v", clip(string(data), 300), r)
		}
	}()
	var in []*input.Instance
	if err := yaml.Unmarshal(data, &in); err != nil {
		return nil
	}
	cmap, err := builtinBuilder().Build()
	if err != nil {
		return vio("native-builtin-dict", "built-in dictionary does not build: %v", err)
	}
	if tracks < 1 || tracks > 8 {
		tracks = 1
	}
	_ = playInstances(cmap, in, tracks)
	return nil
}

func nativeDict(attrs, chords []byte) (v *Violation) {
	defer func() {
		if r := recover(); r != nil {
			v = vio("native-panic:dict", "panic on dictionary attrs=%q chords=%q: %v", clip(string(attrs), 200), clip(string(chords), 200), r)
		}
	}()
	b := builtinBuilder()
	as, err := chord.ParseAttributes(attrs)
	if err != nil {
		return nil
	}
	cs, err := chord.ParseChords(chords)
	if err != nil {
		return nil
	}
	for _, a := range as {
		b.Attribute(a)
	}
	for _, c := range cs {
		b.Chord(c)
	}
	m, err := b.Build()
	if err != nil {
		return nil
	}
	// resolve and play every chord of the dictionary
	for _, c := range b.UnwrapChords() {
		for _, n := range []string{c.Name, c.Meta.Display} {
			if _, ok := m.GetChordAttributes(n); !ok {
				return vio("native-dict-lookup", "chord %q of a validated dictionary cannot be resolved", n)
			}
			d1, _ := op.NewScale(op.MustParseKey("C"))
			_ = d1
			one := &input.Instance{Chord: &input.Chord{Degree: perfectUnison(), Chord: n}}
			var r []*input.Instance
			if err := yaml.Unmarshal([]byte("- values: [1]\n"), &r); err == nil && len(r) == 1 {
				one.Values = r[0].Values
			}
			_ = playInstances(m, []*input.Instance{one}, 1)
		}
	}
	return nil
}

func checkC09Native(c C09Native) *Violation {
	switch c.Target {
	case "text":
		return nativeText(c.Data, c.Key)
	case "yaml":
		return nativeYAML(c.Data, len(c.Key))
	case "dict":
		i := bytes.Index(c.Data, []byte("\x00"))
		if i < 0 {
			return nativeDict(nil, c.Data)
		}
		return nativeDict(c.Data[:i], c.Data[i+1:])
	}
	return nil
}

func init() { reg("c09-native", checkC09Native) }

func FuzzC09Text(f *testing.F) {
	for _, s := range hostileText {
		f.Add([]byte(s), "C")
	}
	for _, s := range []string{"C[1]", "D[1] A_7/E[1] E[2] R[1]", "2[1] 6_7/5[1] 3[2]", "C[1]{key=Am,bpm=200}", "Bbm7b5/Ab[1/2,3/4]{txt=a b, mrk=x}\n; comment\nR[1]"} {
		f.Add([]byte(s), "D")
		f.Add([]byte(s), "F#m")
	}
	f.Fuzz(func(t *testing.T, data []byte, key string) {
		if len(data) > 8192 {
			return
		}
		if v := nativeText(data, key); v != nil {
			fuzzFail(t, "C09", "c09-native", C09Native{Target: "text", Data: data, Key: key}, v)
		}
	})
}

func FuzzC09YAML(f *testing.F) {
	for _, s := range hostileYAML {
		if len(s) < 4000 {
			f.Add([]byte(s), 1)
		}
	}
	f.Add([]byte("- chord:\n    degree: \"1\"\n    name: \"7\"\n  base: \"3\"\n  values:\n    - \"1\"\n    - \"1/4\"\n  bpm: 120\n  velocity: f\n  meter: \"4/4\"\n  key: \"Cm\"\n  meta:\n    txt: \"text message\"\n- values:\n    - 2\n"), 3)
	f.Fuzz(func(t *testing.T, data []byte, tracks int) {
		if len(data) > 8192 {
			return
		}
		if v := nativeYAML(data, tracks); v != nil {
			fuzzFail(t, "C09", "c09-native", C09Native{Target: "yaml", Data: data, Key: string(make([]byte, max(0, min(tracks, 8))))}, v)
		}
	})
}

func FuzzC09Dict(f *testing.F) {
	for _, s := range hostileDict {
		if len(s) < 4000 {
			f.Add([]byte("[]"), []byte(s))
			f.Add([]byte(s), []byte("[]"))
		}
	}
	f.Add([]byte("- name: U1\n  degree: \"b3\"\n"), []byte("- name: C1\n  meta: {display: c1}\n  attributes: [U1, Perfect1]\n  extends: MinorSeventh\n"))
	f.Fuzz(func(t *testing.T, attrs, chords []byte) {
		if len(attrs)+len(chords) > 8192 {
			return
		}
		if v := nativeDict(attrs, chords); v != nil {
			fuzzFail(t, "C09", "c09-native", C09Native{Target: "dict", Data: append(append(append([]byte{}, attrs...), 0), chords...)}, v)
		}
	})
}
