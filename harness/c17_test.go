package harness

import (
	"fmt"
	"sort"
	"strings"
	"testing"

	"gopkg.in/yaml.v3"
	"pgregory.net/rapid"
	"verifharness/theory"
)

// C17 - the diatonic chords reported for a key are playable and stay inside that key.

type C17Case struct {
	Key   string `json:"key"`
	Order []int  `json:"order,omitempty"` // progression mode: indices 0..13 in playing order; empty = one chord at a time
	Vals  []Frac `json:"vals,omitempty"`
}

var majTriads = [7][]int{{0, 4, 7}, {0, 3, 7}, {0, 3, 7}, {0, 4, 7}, {0, 4, 7}, {0, 3, 7}, {0, 3, 6}}
var majSevenths = [7][]int{{0, 4, 7, 11}, {0, 3, 7, 10}, {0, 3, 7, 10}, {0, 4, 7, 11}, {0, 4, 7, 10}, {0, 3, 7, 10}, {0, 3, 6, 10}}

// natural minor = major rotated to start on its sixth degree
func harmonisation(minor bool, seventh bool, pos int) []int {
	t := majTriads
	if seventh {
		t = majSevenths
	}
	if minor {
		return t[(pos+5)%7]
	}
	return t[pos]
}

func diatonicOf(key string) ([]string, *Violation) {
	res, _, doc := describeKey(key)
	if v := cleanOutcome(res); v != nil {
		return nil, v
	}
	if res.Exit != 0 || doc == nil {
		return nil, vio("describe-failed", "info key describe --key %s: %s", key, firstLines(res.Stderr, 2))
	}
	d, _ := doc["diatonic"].(map[string]any)
	var all []string
	for _, part := range []string{"triads", "sevenths"} {
		l, _ := d[part].([]any)
		if len(l) != 7 {
			return nil, vio("diatonic-count", "%s: %d %s", key, len(l), part)
		}
		for _, x := range l {
			s, _ := x.(string)
			all = append(all, s)
		}
	}
	return all, nil
}

func checkC17(c C17Case) *Violation {
	key := theory.ParseKey(c.Key)
	chords, v := diatonicOf(c.Key)
	if v != nil {
		return v
	}
	scale := key.Scale()
	pcs := key.ScalePCs()
	order := c.Order
	single := len(order) == 0
	if single {
		for i := 0; i < 14; i++ {
			order = append(order, i)
		}
	}
	// 1. notation: each chord is written on the scale note of its position
	for i, s := range chords {
		n := scale[i%7].String()
		if !strings.HasPrefix(s, n) || (len(s) > len(n) && (s[len(n)] == '#' || s[len(n)] == 'b' && !strings.HasPrefix(s[len(n):], "b5"))) {
			return vio("diatonic-root", "%s: chord %d is written %q, the scale note there is %s", c.Key, i, s, n)
		}
	}
	play := func(text string, idx []int) *Violation {
		if (len(text)+len(c.Key))%3 == 0 {
			text = "R[1/2] " + text // a third of the pieces open with a pickup rest
		}
		conv := crd(text, "text", "conv", "syllable", "--key", c.Key)
		if v := cleanOutcome(conv); v != nil {
			return v
		}
		if conv.Exit != 0 {
			return vio("diatonic-not-convertible", "%s: %q is refused by text conv syllable --key %s: %s", c.Key, text, c.Key, firstLines(conv.Stderr, 2))
		}
		wr := crd(string(conv.Stdout), "write", "--key", c.Key)
		if v := cleanOutcome(wr); v != nil {
			return v
		}
		if wr.Exit != 0 {
			return vio("diatonic-not-playable", "%s: %q converts but `write --key %s` fails: %s", c.Key, text, c.Key, firstLines(wr.Stderr, 2))
		}
		_, song, err := decode(wr.Stdout)
		if err != nil {
			return vio("not-smf", "%v", err)
		}
		if len(song.Tracks) != 1 {
			return vio("tracks", "%d tracks", len(song.Tracks))
		}
		groups := noteGroups(song.Tracks[0])
		if len(groups) != len(idx) {
			return vio("chord-count", "%s: %d chords written, %d sounded", c.Key, len(idx), len(groups))
		}
		for k, g := range groups {
			i := idx[k]
			sorted := sortedInts(g)
			rootPC := ((scale[i%7].Pitch() % 12) + 12) % 12
			if sorted[0]%12 != rootPC {
				return vio("diatonic-root-pitch", "%s: chord %q sounds %v, its lowest note is not %s", c.Key, chords[i], sorted, scale[i%7])
			}
			rel := map[int]bool{}
			for _, p := range sorted {
				if !pcs[p%12] {
					return vio("outside-scale", "%s: chord %q sounds pitch %d (pitch class %d), which is not in the scale %v", c.Key, chords[i], p, p%12, scale)
				}
				rel[((p-sorted[0])%12+12)%12] = true
			}
			want := map[int]bool{}
			for _, x := range harmonisation(key.Minor, i >= 7, i%7) {
				want[x] = true
			}
			if fmt.Sprint(keysOf(rel)) != fmt.Sprint(keysOf(want)) {
				return vio("diatonic-quality", "%s: chord %d %q sounds intervals %v above its root, the harmonisation has %v", c.Key, i, chords[i], keysOf(rel), keysOf(want))
			}
		}
		return nil
	}
	if single {
		for _, i := range order {
			if v := play(chords[i]+"[1]\n", []int{i}); v != nil {
				return v
			}
		}
		return nil
	}
	var sb strings.Builder
	for k, i := range order {
		v := Frac{1, 1}
		if len(c.Vals) > 0 {
			v = c.Vals[k%len(c.Vals)]
		}
		sb.WriteString(fmt.Sprintf("%s[%s] ", chords[i], v.String()))
	}
	sb.WriteString("\n")
	return play(sb.String(), order)
}

func keysOf(m map[int]bool) []int {
	var r []int
	for k := range m {
		r = append(r, k)
	}
	sort.Ints(r)
	return r
}

func init() { reg("c17", checkC17) }

func TestC17(t *testing.T) {
	r := rec("C17")
	defer r.Flush()
	replayCorpus(t, r, "C17")
	for i, k := range theory.ListedKeys {
		if !myShare(i) {
			continue
		}
		c := C17Case{Key: k}
		for j := 0; j < 14; j++ {
			r.CaseBC(!(k == "C" && j == 0), "single-chord-pipeline")
		}
		if len(r.Samples) < 3 {
			ch, _ := diatonicOf(k)
			r.Samples = append(r.Samples, map[string]any{"key": k, "chords": ch})
		}
		r.Check(t, checkC17(c), "c17", c)
	}
	r.MarkExhaustive("28 keys x 14 diatonic chords, each through info key describe -> text conv syllable --key K -> write --key K")
	rapid.Check(t, func(t *rapid.T) {
		k := rapid.SampledFrom(theory.ListedKeys).Draw(t, "key")
		order := rapid.Permutation([]int{0, 1, 2, 3, 4, 5, 6, 7, 8, 9, 10, 11, 12, 13}).Draw(t, "order")
		vals := rapid.SliceOfN(rapid.Custom(func(t *rapid.T) Frac {
			return Frac{rapid.IntRange(1, 8).Draw(t, "n"), rapid.SampledFrom([]int{1, 2, 3, 4, 8}).Draw(t, "d")}
		}), 1, 5).Draw(t, "vals")
		c := C17Case{Key: k, Order: order, Vals: vals}
		r.Case(fmt.Sprint(k, order, vals), true, "progression-of-all-14")
		r.Check(t, checkC17(c), "c17", c)
	})
}

var _ = yaml.Unmarshal
