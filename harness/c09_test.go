package harness

import (
	"fmt"
	"os"
	"strings"
	"testing"

	"pgregory.net/rapid"
	"verifharness/smfread"
	"verifharness/theory"
)

// C09 - no input crashes or hangs crd; failures are signalled; nonsense is refused.

// cleanOutcome is the universal part of C09: terminate, no crash, and either
// success or (exit != 0, diagnostic on stderr, nothing on stdout / in -o).
func cleanOutcome(res Result) *Violation {
	switch {
	case res.TimedOut:
		return vio("hang", "did not terminate within the watchdog (twice)")
	case res.Crashed():
		return vio("crash:"+res.CrashFrame(), "crashed (exit %d signal %q): %s", res.Exit, res.Signal, firstLines(res.Stderr, 12))
	case res.Exit == 0:
		return nil
	case strings.TrimSpace(res.Stderr) == "":
		return vio("silent-failure", "exit %d without a diagnostic on stderr", res.Exit)
	case len(res.Stdout) != 0:
		return vio("failure-with-stdout", "exit %d but %d bytes on stdout: %q", res.Exit, len(res.Stdout), clip(string(res.Stdout), 200))
	case res.HasOut && len(res.OutFile) != 0:
		return vio("failure-with-outfile", "exit %d but the -o file holds %d bytes", res.Exit, len(res.OutFile))
	}
	return nil
}

func firstLines(s string, n int) string {
	ls := strings.Split(s, "\n")
	if len(ls) > n {
		ls = ls[:n]
	}
	return strings.Join(ls, "\n")
}

func clip(s string, n int) string {
	if len(s) > n {
		return s[:n] + "..."
	}
	return s
}

// A failed command that printed a diagnostic but exited 0 looks like success
// to cleanOutcome; failureSignalled catches it where the oracle *knows* the
// command must fail.
func mustFail(res Result, what string) *Violation {
	if v := cleanOutcome(res); v != nil {
		return v
	}
	if res.Exit == 0 {
		errish := strings.Contains(res.Stderr, "\"level\":\"ERROR\"") || strings.Contains(res.Stderr, "Error:")
		if errish {
			return vio("exit-0-on-error", "%s: crd reported an error on stderr but exited 0: %s", what, firstLines(res.Stderr, 3))
		}
		return vio("nonsense-accepted", "%s: accepted (exit 0, %d bytes on stdout)", what, len(res.Stdout))
	}
	return nil
}

// ---------------------------------------------------------------- directed

type C09Directed struct {
	Class   string  `json:"class"`
	Channel string  `json:"channel"` // text-degree, text-syllable, yaml, flag
	Items   []PItem `json:"items"`   // the valid context
	At      int     `json:"at"`      // where the nonsense is embedded
}

type directedClass struct {
	name     string
	channels []string
}

var directedClasses = []directedClass{
	{"zero-duration", []string{"text-degree", "text-syllable", "yaml", "yaml-event", "yaml-parse", "yaml-conv"}},
	{"zero-denominator", []string{"text-degree", "text-syllable", "yaml", "yaml-event", "yaml-parse", "yaml-conv"}},
	{"no-durations", []string{"yaml"}},
	{"tempo-0", []string{"text-degree", "text-syllable", "yaml", "yaml-event", "yaml-parse", "yaml-conv"}},
	{"tempo-not-a-number", []string{"text-degree", "yaml", "flag"}},
	{"unknown-dynamic", []string{"text-degree", "text-syllable", "yaml", "flag", "yaml-event", "yaml-parse", "yaml-conv"}},
	{"unknown-chord-symbol", []string{"text-degree", "text-syllable", "yaml", "yaml-event", "yaml-parse", "yaml-conv"}},
	{"unknown-modifier", []string{"flag"}},
	{"chord-without-degree", []string{"no-degree-write", "no-degree-event", "no-degree-parse", "no-degree-conv"}},
	{"key-without-scale", []string{"text-degree", "text-syllable", "yaml", "flag", "flag-syllable", "flag-info"}},
	{"key-garbage", []string{"text-degree", "text-syllable", "yaml", "flag", "flag-syllable"}},
	{"mixed-notation", []string{"text-degree", "text-syllable"}},
	{"empty-piece", []string{"text-degree", "text-syllable", "yaml", "yaml-empty-list"}},
	{"zero-meter", []string{"text-degree", "yaml", "flag"}},
	{"zero-denominator-meter", []string{"text-degree", "yaml", "flag"}},
	{"meter-beyond-the-format", []string{"text-degree", "yaml", "flag"}},
	{"impossible-interval", []string{"text-degree", "yaml", "yaml-base"}},
	{"degree-zero", []string{"text-degree", "yaml"}},
	{"null-instance", []string{"yaml", "yaml-event", "yaml-parse", "yaml-conv"}},
	{"zero-default-flag", []string{"flag-bpm-0", "flag-velocity-empty", "flag-meter-empty", "flag-key-empty", "flag-all"}},
	{"unknown-conversion-step", []string{"step-only", "step-first", "step-middle", "step-last", "step-twice"}},
	{"impossible-track-count", []string{"track-0", "track-negative", "track-not-a-number", "track-beyond-header"}},
	{"unwritable-output", []string{"out-text-parse", "out-text-conv-degree", "out-text-conv-syllable", "out-write", "out-write-event", "out-write-parse", "out-write-conv", "out-info-attr-list", "out-info-attr-describe", "out-info-chord-list", "out-info-chord-describe", "out-info-key-list", "out-info-key-describe", "out-info-key-conv", "out-gen-attr"}},
	{"describe-target-not-a-chord", []string{"target-rest", "target-rest-with-duration", "target-two-chords", "target-rest-then-chord", "target-empty", "target-comment", "target-garbage"}},
	{"inconsistent-dictionary", []string{"dict-write", "dict-write-event", "dict-write-parse", "dict-write-conv", "dict-chord-describe", "dict-attr-describe"}},
}

var scalelessKeys = func() []string {
	var r []string
	for _, k := range theory.AllSpellings42() {
		if !theory.IsListed(k) {
			r = append(r, k)
		}
	}
	return r
}()

func pickFrom(seed int, xs []string) string { return xs[((seed%len(xs))+len(xs))%len(xs)] }

// runDirected builds the input, runs the pipeline and checks that the first
// command that has to interpret the nonsense fails and that no SMF ever
// comes out.
func checkC09Directed(c C09Directed) *Violation {
	items := append([]PItem{}, c.Items...)
	if len(items) == 0 {
		return vio("harness", "no context")
	}
	origChannel := c.Channel
	if strings.HasPrefix(c.Channel, "yaml-") && c.Channel != "yaml-empty-list" && c.Channel != "yaml-base" {
		c.Channel = "yaml" // same document, given to another command of the write family (restored below)
	}
	at := c.At % len(items)
	seed := len(items)*7 + at
	textMode := ""
	switch c.Channel {
	case "text-degree":
		textMode = "degree"
	case "text-syllable":
		textMode = "syllable"
	}
	// ---- build the sentence / document
	var sent []SItem
	if textMode == "degree" {
		sent = DegreeSentence(items)
	} else if textMode == "syllable" {
		s, ok := SyllableSentence(items, "C")
		if !ok {
			return vio("harness", "context not expressible")
		}
		sent = s
	}
	doc := ProgressionDoc(items)
	writeArgs := []string{"write"}
	convArgs := []string{"text", "conv", textMode}
	firstFailing := "conv" // which stage must refuse: conv | write
	yamlOverride := ""
	switch c.Class {
	case "zero-duration":
		if textMode != "" {
			sent[at].Vals[0] = SVal{Num: "0", Den: sent[at].Vals[0].Den}
		} else {
			doc.Insts[at].Values = []Frac{{0, 4}}
			firstFailing = "write"
		}
	case "zero-denominator":
		if textMode != "" {
			sent[at].Vals[0].Den = "0"
		} else {
			doc.Insts[at].Values = []Frac{{1, 0}}
			firstFailing = "write"
		}
	case "no-durations":
		doc.Insts[at].Values = nil
		firstFailing = "write"
	case "tempo-0":
		if textMode != "" {
			sent[at].Meta = append(sent[at].Meta, [2]string{"bpm", "0"})
		} else {
			z := 0
			doc.Insts[at].BPM = &z
			firstFailing = "write"
		}
	case "tempo-not-a-number":
		bad := pickFrom(seed, []string{"fast", "-3", "1.5", "12x", "０"})
		switch c.Channel {
		case "text-degree":
			sent[at].Meta = append(sent[at].Meta, [2]string{"bpm", bad})
		case "yaml":
			yamlOverride = strings.Replace(doc.YAML(), "- values:", "- bpm: "+yq(bad)+"\n  values:", 1)
			firstFailing = "write"
		case "flag":
			writeArgs = append(writeArgs, "--bpm", bad)
			firstFailing = "write"
		}
	case "unknown-dynamic":
		bad := pickFrom(seed, []string{"fff", "ppp", "loud", "F", "m", "sfz"})
		switch c.Channel {
		case "text-degree", "text-syllable":
			sent[at].Meta = append(sent[at].Meta, [2]string{"vel", bad})
		case "yaml":
			doc.Insts[at].Vel = &bad
			firstFailing = "write"
			if seed%3 == 0 {
				// present but empty: not one of the six dynamics either (in a document; an empty --velocity flag means "no override")
				sentinel := "ZZDYNAMIC"
				doc.Insts[at].Vel = &sentinel
				yamlOverride = strings.Replace(doc.YAML(), yq(sentinel), pickFrom(seed/3, []string{`""`, `''`, `[]`, `{}`, `" "`}), 1)
			}
		case "flag":
			writeArgs = append(writeArgs, "--velocity", bad)
			firstFailing = "write"
		}
	case "unknown-chord-symbol":
		bad := pickFrom(seed, []string{"foo", "minor", "M77", "sus5", "mm", "Δ", "maj", "dim9x"})
		j := firstChord(items, at)
		if textMode != "" {
			sent[j].Sym = bad
		}
		doc.Insts[j].Chord.Sym = bad
		doc.Insts[j].Chord.Long = false
		firstFailing = "write"
	case "chord-without-degree":
		// a chord mapping that names no degree: not among the nonsense C09 lists, so only the first half of the
		// statement is asked - whatever the command makes of it, it ends cleanly
		y := doc.YAML()
		j := firstChord(items, at)
		d := doc.Insts[j].Chord
		variant := pickFrom(seed, []string{"omit", "null", "empty-map"})
		old := "degree: " + yq(ivText(d.Deg, false)) + ", "
		switch variant {
		case "omit":
			y = strings.Replace(y, old, "", 1)
		case "null":
			y = strings.Replace(y, old, "degree: ~, ", 1)
		default:
			y = strings.Replace(y, old, "", 1)
			y = strings.Replace(y, "chord: {name: "+yq(d.Sym)+"}", "chord: {}", 1)
		}
		argv := map[string][]string{"no-degree-write": {"write"}, "no-degree-event": {"write", "event"}, "no-degree-parse": {"write", "parse"}, "no-degree-conv": {"write", "conv", "-c", "cmt"}}[c.Channel]
		res := Run{Argv: argv, Stdin: y}.Exec()
		if v := cleanOutcome(res); v != nil {
			v.Msg = fmt.Sprintf("crd %s on a chord without degree (%s): %s\n%s", strings.Join(argv, " "), variant, v.Msg, clip(y, 500))
			return v
		}
		return nil
	case "unknown-modifier":
		// crd write conv -c nosuch
		in := doc.YAML()
		cmdName := pickFrom(seed, []string{"nosuch", "cmt2", "CMT", "x", "cmt,nosuch"})
		if seed%3 == 0 {
			// the command is unknown whatever the piece holds, also nothing at all
			in = pickFrom(seed/3, []string{"[]\n", "", "# nothing yet\n", "- values: [\"1\"]\n"})
		}
		res := Run{Argv: []string{"write", "conv", "-c", cmdName}, Stdin: in}.Exec()
		return mustFail(res, fmt.Sprintf("write conv -c %s (unknown modifier command) on %q", cmdName, clip(in, 60)))
	case "key-without-scale", "key-garbage":
		bad := pickFrom(seed, scalelessKeys)
		if c.Class == "key-garbage" {
			bad = pickFrom(seed, []string{"H", "x", "minor", "#", "c", "m", "♭"})
		}
		switch c.Channel {
		case "text-degree":
			// degree mode does not need a scale: `write` is the first to interpret the key
			sent[at].Meta = append(sent[at].Meta, [2]string{"key", bad})
			firstFailing = "write"
			if c.Class == "key-garbage" {
				firstFailing = "conv" // not even a key name: conv has to parse it
			}
		case "text-syllable":
			sent[at].Meta = append(sent[at].Meta, [2]string{"key", bad})
		case "yaml":
			doc.Insts[at].Key = &bad
			firstFailing = "write"
		case "flag":
			writeArgs = append(writeArgs, "--key", bad)
			firstFailing = "write"
		case "flag-syllable":
			s, _ := SyllableSentence(items, "C")
			sent = s
			textMode = "syllable"
			convArgs = []string{"text", "conv", "syllable", "--key", bad}
		case "flag-info":
			res := Run{Argv: []string{"info", "key", "describe", "--key", bad}}.Exec()
			return mustFail(res, "info key describe --key "+bad)
		}
	case "mixed-notation":
		other := SItem{Deg: SDeg{Head: "C"}, Vals: []SVal{{Num: "1"}}}
		if textMode == "syllable" {
			other = SItem{Deg: SDeg{Head: "2"}, Vals: []SVal{{Num: "1"}}}
		}
		sent = append(sent[:at+1], append([]SItem{other}, sent[at+1:]...)...)
	case "describe-target-not-a-chord":
		// `info chord describe -t` asks for one chord: a rest, two chords, nothing at all are not one
		tg := map[string][]string{
			"target-rest":               {"R", "R ", " R"},
			"target-rest-with-duration": {"R[2]", "R[1/2,1]", "R[1]{bpm=90}"},
			"target-two-chords":         {"C G", "Cm7[1] F[1]", "C\nG"},
			"target-rest-then-chord":    {"R C", "R[1] Dm", "C R"},
			"target-empty":              {"", " ", "\n"},
			"target-comment":            {"; C", ";\n"},
			"target-garbage":            {"[1]", "{key=C}", "/E", "_m7", "]"},
		}[c.Channel]
		target := pickFrom(seed, tg)
		res := Run{Argv: []string{"info", "chord", "describe", "-t", target}}.Exec()
		return mustFail(res, fmt.Sprintf("info chord describe -t %q", target))
	case "empty-piece":
		switch c.Channel {
		case "text-degree", "text-syllable":
			text := pickFrom(seed, []string{"", " ", "\n", "; nothing here\n", "  ;x\n\n"})
			res := Run{Argv: convArgs, Stdin: text}.Exec()
			return mustFail(res, fmt.Sprintf("text conv %s of an empty piece %q", textMode, text))
		case "yaml":
			res := Run{Argv: writeArgs, Stdin: pickFrom(seed, []string{"", "\n", "# nothing\n", "---\n"})}.Exec()
			return mustFail(res, "write of an empty document")
		case "yaml-empty-list":
			res := Run{Argv: writeArgs, Stdin: "[]\n"}.Exec()
			return mustFail(res, "write of an empty list")
		}
	case "zero-meter", "zero-denominator-meter", "meter-beyond-the-format":
		bad := "0/4"
		if c.Class == "zero-denominator-meter" {
			bad = "4/0"
		}
		if c.Class == "meter-beyond-the-format" {
			// a time-signature event has one byte for the numerator and a power of two as denominator: what it cannot
			// say is refused, not wrapped into a meter it can say
			bad = pickFrom(seed, []string{"260/4", "4/260", "256/4", "65536/4", "300/8", "4/3", "7/6", "516/8", "4/258"})
		}
		switch c.Channel {
		case "text-degree":
			sent[at].Meta = append(sent[at].Meta, [2]string{"mtr", bad})
			if c.Class == "meter-beyond-the-format" {
				firstFailing = "write" // the text language has no such limit; the file has
			}
		case "yaml":
			yamlOverride = strings.Replace(doc.YAML(), "- values:", "- meter: "+yq(bad)+"\n  values:", 1)
			firstFailing = "write"
		case "flag":
			writeArgs = append(writeArgs, "--meter", bad)
			firstFailing = "write"
		}
	case "impossible-interval":
		j := firstChord(items, at)
		switch c.Channel {
		case "text-degree":
			// a sharpened/flattened number always exists; the impossible ones need YAML. Use a number too big for uint.
			sent[j].Deg = SDeg{Head: "99999999999999999999999"}
		case "yaml":
			yamlOverride = strings.Replace(doc.YAML(), "degree: "+yq(ivText(doc.Insts[j].Chord.Deg, false)), "degree: "+yq(pickFrom(seed, []string{"b4x", "major4", "b#3", "3.5", "-2", "", "III"})), 1)
			firstFailing = "write"
		case "yaml-base":
			yamlOverride = strings.Replace(doc.YAML(), "name: ", "base: "+yq(pickFrom(seed, []string{"x", "b#3", "0", "-1"}))+", name: ", 1)
			firstFailing = "write"
		}
	case "degree-zero":
		j := firstChord(items, at)
		if textMode != "" {
			sent[j].Deg = SDeg{Head: "0"}
		} else {
			yamlOverride = strings.Replace(doc.YAML(), "degree: "+yq(ivText(doc.Insts[j].Chord.Deg, false)), "degree: \"0\"", 1)
			firstFailing = "write"
		}
	case "unknown-conversion-step":
		// `info key conv -c`: the documented steps are p, r, d, s; a chain with any other letter, wherever it
		// stands, is not a conversion and must be refused rather than partly applied
		n := 1 + seed%6
		var valid []string
		for i := 0; i < n; i++ {
			valid = append(valid, string("prds"[(seed/3+i*(1+seed%3))%4]))
		}
		bad := pickFrom(seed/2, []string{"x", "P", "D", "é", "1", ",", "-", "q", "S", "R", "."})
		k := (seed / 5) % (len(valid) + 1)
		var chain string
		switch c.Channel {
		case "step-only":
			chain = bad
		case "step-first":
			chain = bad + strings.Join(valid, "")
		case "step-last":
			chain = strings.Join(valid, "") + bad
		case "step-twice":
			chain = bad + strings.Join(valid, bad)
		default:
			valid = append(valid, valid[0])
			k = 1 + k%(len(valid)-1)
			chain = strings.Join(valid[:k], "") + bad + strings.Join(valid[k:], "")
		}
		key := pickFrom(seed+at, theory.ListedKeys)
		res := Run{Argv: []string{"info", "key", "conv", "--key", key, "-c", chain}}.Exec()
		return mustFail(res, fmt.Sprintf("unknown conversion step: `crd info key conv --key %s -c %q`", key, chain))
	case "impossible-track-count":
		// a piece cannot be spread over zero, a negative number of, or more tracks than a header can declare
		val := map[string][]string{
			"track-0":             {"0"},
			"track-negative":      {"-1", "-5", "-2147483648"},
			"track-not-a-number":  {"abc", "", "1.5", "two", "0x"},
			"track-beyond-header": {"65536", "65537", "100000", "131072", "4294967296", "1000000000000000", "9223372036854775807"},
		}[c.Channel]
		sub := [][]string{{"write"}, {"write", "event"}}[seed%2]
		argv := append(append([]string{}, sub...), "--track", pickFrom(seed/2, val))
		res := Run{Argv: argv, Stdin: doc.YAML()}.Exec()
		if v := mustFail(res, fmt.Sprintf("impossible track count: `crd %s`", strings.Join(argv, " "))); v != nil {
			if v.Sig == "nonsense-accepted" {
				if _, err := smfread.ReadSMF(res.Stdout); err == nil {
					v.Sig = "nonsense-reached-midi"
				}
			}
			return v
		}
		return nil
	case "unwritable-output":
		// injected fault: the -o file opens but takes no data (/dev/full: every write fails with ENOSPC). A command
		// that has a result and cannot deliver it has failed, and must say so like for any other failure.
		if _, err := os.Stat("/dev/full"); err != nil {
			return nil
		}
		var argv []string
		stdin := ""
		switch strings.TrimPrefix(c.Channel, "out-") {
		case "text-parse":
			argv, stdin = []string{"text", "parse"}, Render(DegreeSentence(items), canonStyle{})
		case "text-conv-degree":
			argv, stdin = []string{"text", "conv", "degree"}, Render(DegreeSentence(items), canonStyle{})
		case "text-conv-syllable":
			ss, _ := SyllableSentence(items, "C")
			argv, stdin = []string{"text", "conv", "syllable"}, Render(ss, canonStyle{})
		case "write":
			argv, stdin = []string{"write"}, ProgressionDoc(items).YAML()
		case "write-event":
			argv, stdin = []string{"write", "event"}, ProgressionDoc(items).YAML()
		case "write-parse":
			argv, stdin = []string{"write", "parse"}, ProgressionDoc(items).YAML()
		case "write-conv":
			argv, stdin = []string{"write", "conv", "-c", "cmt"}, ProgressionDoc(items).YAML()
		case "info-attr-list":
			argv = []string{"info", "attr", "list"}
		case "info-attr-describe":
			argv = []string{"info", "attr", "describe", "-t", pickFrom(seed, []string{"Major3", "Perfect5", "Minor7", "Augmented4"}), "-r", pickFrom(at, []string{"C", "F#", "Bb"})}
		case "info-chord-list":
			argv = []string{"info", "chord", "list"}
		case "info-chord-describe":
			argv = []string{"info", "chord", "describe", "-t", pickFrom(seed, []string{"C", "Dm7", "G_7", "Bbmaj7"})}
		case "info-key-list":
			argv = []string{"info", "key", "list"}
		case "info-key-describe":
			argv = []string{"info", "key", "describe", "--key", pickFrom(seed, theory.ListedKeys)}
		case "info-key-conv":
			argv = []string{"info", "key", "conv", "--key", pickFrom(seed, theory.ListedKeys), "-c", pickFrom(at, []string{"d", "ps", "r", "sdp"})}
		case "gen-attr":
			argv = []string{"gen", "attr", "-d", fmt.Sprint(1 + seed%20)}
		}
		plain := Run{Argv: argv, Stdin: stdin}.Exec()
		if v := cleanOutcome(plain); v != nil {
			return v
		}
		if plain.Exit != 0 || len(plain.Stdout) == 0 {
			return vio("harness", "`crd %s` has no result to lose (exit %d): %s", strings.Join(argv, " "), plain.Exit, firstLines(plain.Stderr, 2))
		}
		full := Run{Argv: append(append([]string{}, argv...), "-o", "/dev/full"), Stdin: stdin}.Exec()
		if v := mustFail(full, fmt.Sprintf("`crd %s -o /dev/full` (a result of %d bytes that cannot be written)", strings.Join(argv, " "), len(plain.Stdout))); v != nil {
			if v.Sig == "nonsense-accepted" {
				v.Sig = "lost-output-reported-as-success"
			}
			return v
		}
		return nil
	case "zero-default-flag":
		// a flag set to its empty / zero default means "no override": same bytes as without the flag,
		// and in particular never a tempo of 0
		var extra []string
		switch c.Channel {
		case "flag-bpm-0":
			extra = []string{"--bpm", "0"}
		case "flag-velocity-empty":
			extra = []string{"--velocity", ""}
		case "flag-meter-empty":
			extra = []string{"--meter", ""}
		case "flag-key-empty":
			extra = []string{"--key", ""}
		case "flag-all":
			extra = []string{"--bpm", "0", "--velocity", "", "--meter", "", "--key", ""}
		}
		sub := [][]string{{"write"}, {"write", "event"}, {"write", "parse"}}[seed%3]
		plain := Run{Argv: sub, Stdin: doc.YAML()}.Exec()
		with := Run{Argv: append(append([]string{}, sub...), extra...), Stdin: doc.YAML()}.Exec()
		for _, x := range []Result{plain, with} {
			if v := cleanOutcome(x); v != nil {
				return v
			}
		}
		if plain.Exit != with.Exit || string(plain.Stdout) != string(with.Stdout) {
			return vio("zero-default-flag-overrides", "`crd %s %s` differs from `crd %s`: exit %d/%d, %d/%d bytes (a flag at its zero default must mean no override)\n%s", strings.Join(sub, " "), strings.Join(extra, " "), strings.Join(sub, " "), with.Exit, plain.Exit, len(with.Stdout), len(plain.Stdout), clip(doc.YAML(), 600))
		}
		return nil
	case "inconsistent-dictionary":
		kind := pickFrom(seed, badDictKinds)
		chords, attrs := badDictExtra(kind)
		var d Dict
		// a valid part first, so that the bad entries are not the only ones
		d.ChordFiles = append(d.ChordFiles, []UChord{{Name: "Fine", Display: "fine", Attrs: []string{"Perfect1", "Major3"}, Extends: "SuspendSecond"}})
		if chords != nil {
			d.ChordFiles = append(d.ChordFiles, chords)
		}
		if attrs != nil {
			d.AttrFiles = append(d.AttrFiles, attrs)
		}
		files, dargs := d.filesAndArgs()
		var argv []string
		stdin := doc.YAML()
		switch c.Channel {
		case "dict-write":
			argv = append([]string{"write"}, dargs...)
		case "dict-write-event":
			argv = append([]string{"write", "event"}, dargs...)
		case "dict-write-parse":
			argv = append([]string{"write", "parse"}, dargs...)
		case "dict-write-conv":
			argv = append([]string{"write", "conv", "-c", "cmt"}, dargs...)
		case "dict-chord-describe":
			argv = append([]string{"info", "chord", "describe", "-t", "Cm"}, dargs...)
			stdin = ""
		case "dict-attr-describe":
			argv = append([]string{"info", "attr", "describe", "-t", "Major3"}, dargs...)
			stdin = ""
		}
		res := Run{Argv: argv, Stdin: stdin, Files: files}.Exec()
		v := mustFail(res, fmt.Sprintf("inconsistent dictionary (%s) given to `crd %s`\n%s", kind, strings.Join(argv, " "), dumpFiles(files)))
		if v != nil {
			v.Sig = "bad-dict-" + kind + ":" + v.Sig
		}
		return v
	case "null-instance":
		y := doc.YAML()
		yamlOverride = y + "- \n"
		if at%2 == 0 {
			yamlOverride = "- \n" + y
		}
		firstFailing = "write"
	default:
		return vio("harness", "unknown class %s", c.Class)
	}

	// ---- run
	y := doc.YAML()
	if yamlOverride != "" {
		y = yamlOverride
	}
	what := fmt.Sprintf("%s via %s", c.Class, c.Channel)
	if textMode != "" {
		text := Render(sent, canonStyle{})
		conv := Run{Argv: convArgs, Stdin: text}.Exec()
		if firstFailing == "conv" {
			if v := mustFail(conv, what+fmt.Sprintf(": `crd %s` on %q", strings.Join(convArgs, " "), text)); v != nil {
				return v
			}
			return nil
		}
		if v := cleanOutcome(conv); v != nil {
			v.Msg = fmt.Sprintf("%s: `crd %s` on %q: %s", what, strings.Join(convArgs, " "), text, v.Msg)
			return v
		}
		if conv.Exit != 0 {
			return nil // refused even earlier than required: fine
		}
		y = string(conv.Stdout)
	}
	switch origChannel {
	case "yaml-event":
		writeArgs = []string{"write", "event"}
	case "yaml-parse":
		writeArgs = []string{"write", "parse"}
	case "yaml-conv":
		writeArgs = []string{"write", "conv", "-c", "cmt"}
	}
	wr := Run{Argv: writeArgs, Stdin: y}.Exec()
	if v := mustFail(wr, what+fmt.Sprintf(": `crd %s` on\n%s", strings.Join(writeArgs, " "), clip(y, 1500))); v != nil {
		if v.Sig == "nonsense-accepted" {
			if _, err := smfread.ReadSMF(wr.Stdout); err == nil {
				v.Sig = "nonsense-reached-midi"
			}
		}
		return v
	}
	return nil
}

func firstChord(items []PItem, at int) int {
	for k := 0; k < len(items); k++ {
		j := (at + k) % len(items)
		if !items[j].Rest {
			return j
		}
	}
	return 0
}

func init() { reg("c09-directed", checkC09Directed) }

func TestC09Directed(t *testing.T) {
	r := rec("C09")
	defer r.Flush()
	replayCorpus(t, r, "C09")
	o := ProgOpts{MaxItems: 6, Syllable: true, MaxNum: 7, KeyChanges: 0, Settings: 10, Texts: 15, RestPct: 20}
	// every class x channel, in `contexts` generated contexts each
	type cc struct{ class, channel string }
	var all []cc
	for _, dc := range directedClasses {
		for _, ch := range dc.channels {
			all = append(all, cc{dc.name, ch})
		}
	}
	// every kind of inconsistent dictionary at least once per run, whatever the random part draws
	{
		var fixed []PItem
		for i := 0; i < 2*len(badDictKinds); i++ {
			fixed = append(fixed, PItem{Deg: IV{1 + i%7, int(theory.Perfect)}, Vals: []Frac{{1, 1}}})
			if q := theory.QualsFor(1 + i%7); len(q) > 0 {
				fixed[i].Deg.Qual = int(q[0])
			}
		}
		chans := []string{"dict-write", "dict-write-event", "dict-write-parse", "dict-write-conv", "dict-chord-describe", "dict-attr-describe"}
		for at := 0; at < len(badDictKinds); at++ {
			if !myShare(at) {
				continue
			}
			c := C09Directed{Class: "inconsistent-dictionary", Channel: chans[at%len(chans)], Items: fixed, At: at}
			r.Case(fmt.Sprintf("fixed-dict|%d", at), true, "directed", "directed:inconsistent-dictionary", "channel:"+c.Channel)
			r.Check(t, checkC09Directed(c), "c09-directed", c)
		}
	}
	rapid.Check(t, func(t *rapid.T) {
		oo := o
		if coin(t, "long-context", 15) {
			oo.MaxItems = 80 // the nonsense sits somewhere in a long piece
		}
		items := genProgression(oo, "C").Draw(t, "context")
		if len(items) < 40 && coin(t, "pad-context", 10) {
			n0 := len(items)
			for len(items) < 45 {
				items = append(items, items[len(items)%n0])
			}
		}
		at := rapid.IntRange(0, len(items)-1).Draw(t, "at")
		x := rapid.SampledFrom(all).Draw(t, "class")
		c := C09Directed{Class: x.class, Channel: x.channel, Items: items, At: at}
		r.Case(fmt.Sprintf("%s|%s|%d|%v", x.class, x.channel, at, items), true, "directed", "directed:"+x.class, "channel:"+x.channel)
		r.Sample(map[string]any{"class": x.class, "channel": x.channel, "at": at, "context_items": len(items)})
		r.Check(t, checkC09Directed(c), "c09-directed", c)
	})
}
