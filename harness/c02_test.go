package harness

import (
	"fmt"
	"sort"
	"strings"
	"testing"

	"pgregory.net/rapid"
	"verifharness/smfread"
)

// C02 - onsets, lengths and rests follow the written durations, gapless.

type C02Case struct {
	Doc Doc `json:"doc"`
}

type noteSpan struct {
	Track, Pitch int
	On, Off      int64
}

// pairNotes pairs, per track and pitch, each note-on with the next unmatched
// note-off (FIFO). It also checks the same-tick order rule of C02: within a
// track, at one tick, no release of a pitch comes after a strike of it.
func pairNotes(song *smfread.Song) (spans []noteSpan, problem string) {
	for ti, tr := range song.Tracks {
		open := map[int][]int64{}
		struckAt := map[int]int64{} // pitch -> tick of the most recent strike
		for _, e := range tr {
			switch {
			case e.IsNoteOn():
				p := int(e.D1)
				open[p] = append(open[p], e.Tick)
				struckAt[p] = e.Tick
			case e.IsNoteOff():
				p := int(e.D1)
				if len(open[p]) == 0 {
					return nil, fmt.Sprintf("track %d: release of pitch %d at tick %d without a strike", ti, p, e.Tick)
				}
				on := open[p][0]
				open[p] = open[p][1:]
				if t, ok := struckAt[p]; ok && t == e.Tick && on < e.Tick {
					return nil, fmt.Sprintf("track %d tick %d: pitch %d is struck by the next chord before the previous chord releases it", ti, e.Tick, p)
				}
				spans = append(spans, noteSpan{ti, p, on, e.Tick})
			}
		}
		for p, o := range open {
			if len(o) > 0 {
				return nil, fmt.Sprintf("track %d: pitch %d struck at %d is never released", ti, p, o[0])
			}
		}
	}
	return spans, ""
}

// timeline walks the instances with the exact-rational model. At an exact
// half either neighbour is admissible, so starts are kept as small sets and
// narrowed by what is observed. Returns the admissible totals.
func timeline(d Doc, ms []InstModel, spans []noteSpan) (starts []int64, totals map[int64]bool, v *Violation) {
	// a chord shorter than half a tick occupies round(T x v) = 0 ticks: its notes, if written at all, are struck
	// and released at one tick, and the next instance starts at that same tick. Such chords are walked like
	// zero-length rests; a zero-length span is legitimate only where the model has such a chord.
	zeroAllowed := false
	for _, m := range ms {
		if m.Notes != nil && m.LenHi == 0 {
			zeroAllowed = true
		}
	}
	zeroAt := map[int64]int{}
	var audible []noteSpan
	for _, s := range spans {
		if s.On == s.Off {
			zeroAt[s.On]++
			if !zeroAllowed {
				return nil, nil, vio("length", "pitch %d is struck and released at the same tick %d, but every chord of the document lasts at least one tick", s.Pitch, s.On)
			}
			continue
		}
		audible = append(audible, s)
	}
	spans = audible
	onTicks := map[int64]bool{}
	for _, s := range spans {
		onTicks[s.On] = true
	}
	var distinct []int64
	for t := range onTicks {
		distinct = append(distinct, t)
	}
	sort.Slice(distinct, func(i, j int) bool { return distinct[i] < distinct[j] })
	nChords := 0
	for _, m := range ms {
		if m.Notes != nil && m.LenHi > 0 {
			nChords++
		}
	}
	if len(distinct) != nChords {
		return nil, nil, vio("onset-count", "document has %d chords but notes start at %d distinct ticks %v", nChords, len(distinct), distinct)
	}
	byOn := map[int64][]noteSpan{}
	for _, s := range spans {
		byOn[s.On] = append(byOn[s.On], s)
	}
	cur := map[int64]bool{0: true}
	k := 0
	starts = make([]int64, len(ms))
	for i, m := range ms {
		lens := []int64{m.LenLo}
		if m.LenHi != m.LenLo {
			lens = append(lens, m.LenHi)
		}
		if m.Notes != nil && m.LenHi == 0 {
			// its note-ons fall at the instance start and its note-offs at its end, which is the same tick
			found := false
			for s := range cur {
				if zeroAt[s] > 0 {
					found = true
				}
			}
			if !found {
				return nil, nil, vio("zero-length-chord-missing", "instance %d (chord, values %v, 0 ticks long) starts at tick %v but no note is struck and released there", i, d.Insts[i].Values, keys64(cur))
			}
		}
		if m.Notes == nil || m.LenHi == 0 {
			next := map[int64]bool{}
			for s := range cur {
				for _, l := range lens {
					next[s+l] = true
				}
			}
			starts[i] = -1
			cur = next
			continue
		}
		on := distinct[k]
		k++
		if !cur[on] {
			return nil, nil, vio("onset", "instance %d (chord) starts at tick %d, exact arithmetic says %v (values %v)", i, on, keys64(cur), d.Insts[i].Values)
		}
		starts[i] = on
		var off int64 = -1
		for _, s := range byOn[on] {
			okLen := false
			for _, l := range lens {
				if s.Off-s.On == l {
					okLen = true
				}
			}
			if !okLen {
				return nil, nil, vio("length", "instance %d (chord, values %v): pitch %d sounds for %d ticks, exact arithmetic says %v", i, d.Insts[i].Values, s.Pitch, s.Off-s.On, lens)
			}
			if off >= 0 && s.Off != off {
				return nil, nil, vio("length", "instance %d: notes of one chord end at different ticks %d and %d", i, off, s.Off)
			}
			off = s.Off
		}
		cur = map[int64]bool{off: true}
	}
	return starts, cur, nil
}

func keys64(m map[int64]bool) []int64 {
	var r []int64
	for k := range m {
		r = append(r, k)
	}
	sort.Slice(r, func(i, j int) bool { return r[i] < r[j] })
	return r
}

func checkC02(c C02Case) *Violation {
	d := c.Doc
	_, song, err := writeDoc(d)
	if err != nil {
		return vio("write-failed", "%v\nargs=%v\n%s", err, d.Flags.Argv(), d.YAML())
	}
	return compareTiming(d, song)
}

// compareTiming: onsets, lengths and order of a decoded song against the exact-rational model.
func compareTiming(d Doc, song *smfread.Song) *Violation {
	ctx := fmt.Sprintf("\nargs=%v\n%s", d.Flags.Argv(), d.YAML())
	spans, prob := pairNotes(song)
	if prob != "" {
		sig := "pairing"
		if strings.Contains(prob, "before the previous chord releases") {
			sig = "order"
		}
		return vio(sig, "%s%s", prob, ctx)
	}
	ms := d.Model(song.Division)
	_, totals, v := timeline(d, ms, spans)
	if v != nil {
		v.Msg += ctx
		return v
	}
	// the piece ends where its last instance ends: trailing rests occupy their ticks too, and the only thing
	// that shows it is the position of the last event of the file (the latest end-of-track)
	var end int64
	for _, tr := range song.Tracks {
		if n := len(tr); n > 0 && tr[n-1].Tick > end {
			end = tr[n-1].Tick
		}
	}
	if !totals[end] {
		return vio("piece-end", "the file ends at tick %d, the instances add up to %v ticks%s", end, keys64(totals), ctx)
	}
	return nil
}

func c02Opts() DocOpts {
	return DocOpts{MaxInsts: pick(10, 40), MaxIvNum: 9, Settings: 12, Meta: 12, RestPct: 35, FlagsPct: 20, MultiTrack: true, MaxTrack: 6}
}

// ensureAudible: C02 needs every chord to last >= 1 tick so that chord
// starts are distinct; fix up by construction (not rejection).
func ensureAudible(d *Doc) {
	for i := range d.Insts {
		if d.Insts[i].Chord == nil {
			continue
		}
		if lo, _ := ticksOf(d.Insts[i].Values, 960); lo < 1 {
			d.Insts[i].Values = append(d.Insts[i].Values, Frac{1, d.Insts[i].Values[0].D})
			if lo2, _ := ticksOf(d.Insts[i].Values, 960); lo2 < 1 {
				d.Insts[i].Values = []Frac{{1, 7}}
			}
		}
	}
}

func c02Stats(r *Rec, d Doc) {
	nt := false
	var classes []string
	half := false
	for i, in := range d.Insts {
		if len(in.Values) >= 2 {
			nt = true
		}
		for _, v := range in.Values {
			if 960%v.D != 0 {
				nt = true
				classes = append(classes, "denominator-not-dividing-960")
				break
			}
		}
		if lo, hi := ticksOf(in.Values, 960); lo != hi {
			half = true
		}
		if in.Chord == nil {
			if i == 0 {
				classes = append(classes, "leading-rest")
				nt = true
			}
			if i == len(d.Insts)-1 {
				classes = append(classes, "trailing-rest")
				nt = true
			}
			if i > 0 && d.Insts[i-1].Chord == nil {
				classes = append(classes, "consecutive-rests")
				nt = true
			}
			if in.BPM != nil || in.Key != nil || in.Txt != nil || in.Meter != nil {
				classes = append(classes, "setting-on-rest")
				nt = true
			}
		}
	}
	if half {
		classes = append(classes, "doc-with-exact-half")
	}
	if d.Flags.Track > 1 {
		classes = append(classes, "multi-track")
	}
	r.Case(d.YAML()+fmt.Sprint(d.Flags.Argv()), nt, dedup(classes)...)
}

func dedup(a []string) []string {
	seen := map[string]bool{}
	var r []string
	for _, x := range a {
		if !seen[x] {
			seen[x] = true
			r = append(r, x)
		}
	}
	return r
}

func init() { reg("c02", checkC02) }

func TestC02(t *testing.T) {
	r := rec("C02")
	defer r.Flush()
	replayCorpus(t, r, "C02")
	o := c02Opts()
	rapid.Check(t, func(t *rapid.T) {
		d := genDoc(o).Draw(t, "doc")
		// repeated identical chords back to back (same pitches at a shared tick)
		if len(d.Insts) >= 2 && coin(t, "repeat", 30) {
			j := rapid.IntRange(1, len(d.Insts)-1).Draw(t, "repeat-at")
			if d.Insts[j-1].Chord != nil {
				cp := *d.Insts[j-1].Chord
				d.Insts[j].Chord = &cp
				d.Insts[j].Key = nil
				r.Class("repeated-chord-back-to-back", 1)
			}
		}
		ensureAudible(&d)
		// chords shorter than half a tick: round(T x v) = 0 ticks, the piece must not get longer by them
		if coin(t, "sub-tick-chord", 8) {
			n := rapid.IntRange(1, 3).Draw(t, "nsub")
			for i := 0; i < n; i++ {
				j := rapid.IntRange(0, len(d.Insts)-1).Draw(t, "sub-at")
				if d.Insts[j].Chord == nil {
					continue
				}
				d.Insts[j].Values = rapid.SampledFrom([][]Frac{{{1, 1921}}, {{1, 2048}}, {{3, 7000}}, {{1, 5000}, {1, 5000}}, {{1, 1000000}}, {{1, 9973}}}).Draw(t, "sub-values")
				r.Class("chord-shorter-than-half-a-tick", 1)
			}
		}
		c := C02Case{d}
		c02Stats(r, d)
		r.Sample(map[string]any{"args": d.Flags.Argv(), "yaml": d.YAML()})
		r.Check(t, checkC02(c), "c02", c)
	})
}
