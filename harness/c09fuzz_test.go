package harness

import (
	"fmt"
	"sort"
	"strings"
	"testing"

	"pgregory.net/rapid"
	"verifharness/theory"
)

// C09 generator 1: structure-aware process fuzzing of every subcommand.

type C09Fuzz struct {
	Argv  []string          `json:"argv"`
	Stdin []byte            `json:"stdin"`
	Files map[string][]byte `json:"files,omitempty"`
	Out   bool              `json:"out,omitempty"` // -o @out.bin is part of argv
	Kind  string            `json:"kind,omitempty"`
	Stale bool              `json:"stale,omitempty"` // out.bin exists before the run
}

func checkC09Fuzz(c C09Fuzz) *Violation {
	r := Run{Argv: c.Argv, Stdin: string(c.Stdin)}
	if len(c.Files) > 0 {
		r.Files = map[string]string{}
		for k, v := range c.Files {
			r.Files[k] = string(v)
		}
	}
	if c.Out {
		r.OutArg = "out.bin"
	}
	res := r.Exec()
	lastFuzzExit = res.Exit
	if c.Stale && res.Exit != 0 && string(res.OutFile) == string(c.Files["out.bin"]) {
		res.OutFile = nil // a failing command may leave an existing file as it was
	}
	v := cleanOutcome(res)
	if v == nil {
		return nil
	}
	if v.Sig == "hang" {
		v.Sig = "hang:" + cmdName(c.Argv)
	}
	v.Msg = fmt.Sprintf("crd %s (stdin %d bytes: %q): %s", strings.Join(c.Argv, " "), len(c.Stdin), clip(string(c.Stdin), 300), v.Msg)
	return v
}

var lastFuzzExit int

func init() { reg("c09-fuzz", checkC09Fuzz) }

var hostileText = []string{"40000000[1]", "C[99999999999999999999]", "C[1/0]", "C[0]", "{", "}", "_", "C_", "C[1]{", "C[1]{a=", "C[1]{a=b", "Cm", "C[1];x", "C[1] ;",
	"\xff\xfe", "\x00", "\ufeffC[1]", "C[1]{bpm=99999999999999999999}", "C[1]{bpm=-1}", "C[1]{mtr=1/0}", "C[1]{key=H}", "C[1]{vel=}", "C[18446744073709551615]", "C[18446744073709551616]",
	"C[1/18446744073709551615]", "18446744073709551615[1]", "4294967296[1]", "1[1]/", "C/[1]", "C//E[1]", "C[1,]", "C[,1]", "C[1]{,}", "C[1]{=}", "C[1]{a=b,}", "C[1]{a==b}", "C[1]{{a=b}}",
	"C[1]{key=Abm}", "2b[1] C[1]", "R", "R[]", "R[1]{}", "C#b[1]", "Cbb[1]", "H[1]", "c[1]", "C [ 1 ]", "C\x00[1]", "C[1]\x00", "C[１]", "♯[1]", "C♯♯[1]", "1#/1b[1]{key=C#m}"}

var hostileYAML = []string{
	"- values: [1]\n  chord: {degree: \"4294967296\", name: \"\"}\n",
	"- values: [1]\n  chord: {degree: \"40000000\", name: \"\", base: \"40000000\"}\n",
	"- values: [1]\n  bpm: 18446744073709551616\n",
	"- values: [1]\n  bpm: 18446744073709551615\n",
	"- &a {values: [1]}\n- *a\n- *a\n",
	"- values: &v [1, 2]\n  chord: &c {degree: \"1\", name: m}\n- values: *v\n  chord: *c\n",
	"a: &a [x,x,x,x,x,x,x,x,x]\nb: &b [*a,*a,*a,*a,*a,*a,*a,*a,*a]\nc: &c [*b,*b,*b,*b,*b,*b,*b,*b,*b]\nd: &d [*c,*c,*c,*c,*c,*c,*c,*c,*c]\ne: [*d,*d,*d,*d,*d,*d,*d,*d,*d]\n",
	strings.Repeat("[", 5000) + strings.Repeat("]", 5000),
	strings.Repeat("- ", 3000) + "x",
	"- values: 1\n", "- values: [1]\n  meta: [1, 2]\n", "- values: [1]\n  chord: 5\n", "- values: [1]\n  chord: []\n", "- values: [1]\n  key: [C]\n", "- values: [1]\n  bpm: {}\n",
	"- values: [1]\n  velocity: null\n", "- values: null\n", "- values: [1]\n  meta: null\n", "- null\n", "- []\n", "- 5\n", "a: b\n", "- values: [1]\n\tbpm: 3\n", "\x00", "- values: [\"1/\"]\n", "- values: [\"/1\"]\n",
	"- values: [\"1/2/3\"]\n", "- values: [1.5]\n", "- values: [-1]\n", "- values: [1e3]\n", "- values: [0x10]\n", "- values: [!!binary AAAA]\n", "- values: [1]\n  chord: {degree: \"1\"}\n", "- values: [1]\n  chord: {name: m}\n",
	"- values: [1]\n  chord: {degree: \"1\", name: m, base: \"\"}\n", "- values: [1]\n  chord: {degree: \"b\", name: m}\n", "- values: [1]\n  meta: {txt: [a]}\n", "- values: [1]\n  meta: {1: 2}\n", "- values: [1]\n  meter: \"4\"\n",
	"- values: [1]\n  meter: \"999999999999/4\"\n", "- values: [1]\n  meter: \"4/3\"\n", "- values: [1]\n  meter: \"256/256\"\n", "- values: [18446744073709551615]\n  chord: {degree: \"1\", name: \"\"}\n",
	"--- \n- values: [1]\n--- \n- values: [2]\n", "%YAML 1.1\n---\n- values: [1]\n", "- values: [1]\n  values: [2]\n", "- {values: [1], chord: {degree: \"1\", name: \"\", extra: 1}, unknown: 2}\n",
}

var hostileDict = []string{
	"- name: X\n", "- name: X\n  degree: \"0\"\n", "- name: X\n  degree: \"99999999999\"\n", "- name: Perfect1\n  degree: \"40000000\"\n", "- name: X\n  degree: [1]\n", "- degree: \"3\"\n", "[]\n", "", "x", "- 5\n", "- null\n",
	"- name: C1\n  meta: {display: c1}\n  attributes: [5]\n", "- name: C1\n  meta: {display: c1}\n  attributes: \"Major3\"\n", "- name: C1\n  meta: null\n  attributes: [Major3]\n", "- name: C1\n  meta: {display: \"\"}\n  attributes: [Major3]\n",
	"- name: C1\n  meta: {display: c1}\n", "- name: C1\n  meta: {display: c1}\n  extends: C1\n", "- name: MajorTriad\n  meta: {display: \"\"}\n  extends: MinorTriad\n- name: MinorTriad\n  meta: {display: m}\n  extends: MajorTriad\n",
	"- name: MajorTriad\n  meta: {display: \"\"}\n  attributes: [Perfect1]\n", "- name: C1\n  meta: {display: m}\n  attributes: [Perfect1]\n", "- &a {name: A1, meta: {display: a1}, attributes: [Perfect1]}\n- *a\n",
	"- name: Perfect1\n", "- name: Major3\n  degree: \"bbb3\"\n", "- name: \"\"\n  degree: \"3\"\n", strings.Repeat("- name: N\n  degree: \"2\"\n", 2000),
}

func mutateBytes(t *rapid.T, b []byte, pool []string) ([]byte, string) {
	kind := rapid.SampledFrom([]string{"none", "none", "none", "none", "truncate", "splice-hostile", "duplicate", "bitflip", "insert-hostile", "delete", "blowup", "replace-with-hostile", "swap-halves"}).Draw(t, "bytemut")
	pos := func(label string) int {
		if len(b) == 0 {
			return 0
		}
		return rapid.IntRange(0, len(b)).Draw(t, label)
	}
	h := []byte(rapid.SampledFrom(pool).Draw(t, "hostile"))
	switch kind {
	case "truncate":
		return append([]byte{}, b[:pos("cut")]...), kind
	case "splice-hostile":
		p := pos("at")
		return append(append(append([]byte{}, b[:p]...), h...), b[p:]...), kind
	case "insert-hostile":
		p := pos("at")
		return append(append(append([]byte{}, b[:p]...), append([]byte("\n"), h...)...), b[p:]...), kind
	case "duplicate":
		p, q := pos("from"), pos("to")
		if p > q {
			p, q = q, p
		}
		return append(append(append([]byte{}, b[:q]...), b[p:q]...), b[q:]...), kind
	case "bitflip":
		if len(b) == 0 {
			return b, "none"
		}
		c := append([]byte{}, b...)
		n := rapid.IntRange(1, 4).Draw(t, "nflips")
		for i := 0; i < n; i++ {
			p := rapid.IntRange(0, len(c)-1).Draw(t, "flip-at")
			c[p] ^= 1 << uint(rapid.IntRange(0, 7).Draw(t, "bit"))
		}
		return c, kind
	case "delete":
		p, q := pos("from"), pos("to")
		if p > q {
			p, q = q, p
		}
		return append(append([]byte{}, b[:p]...), b[q:]...), kind
	case "blowup":
		target := pick(64<<10, 256<<10)
		if len(b) == 0 {
			return b, "none"
		}
		var c []byte
		for len(c) < target {
			c = append(c, b...)
			c = append(c, '\n')
		}
		return c, kind
	case "replace-with-hostile":
		return h, kind
	case "swap-halves":
		p := pos("mid")
		return append(append([]byte{}, b[p:]...), b[:p]...), kind
	}
	return b, "none"
}

var keyPool = append(append([]string{"", "H", "Cx", "C#m#", "♭", "m", "c", strings.Repeat("C", 5000)}, theory.AllSpellings42()...), theory.ListedKeys...)
var uintPool = []string{"0", "1", "4", "100", "255", "256", "60000", "4294967295", "4294967296", "18446744073709551615", "18446744073709551616", "-1", "abc", "1.5", "", " 1", "0x10", "+5", "１"}
var meterPool = []string{"4/4", "3/4", "0/4", "4/0", "1/3", "255/128", "256/4", "1/256", "x", "1/", "/", "/4", "4", "", "1/2/3", "18446744073709551615/18446744073709551615", "-1/4"}
var velPool = []string{"pp", "p", "mp", "mf", "f", "ff", "", "fff", "P", "m p"}
var trackPool = []string{"1", "2", "3", "16", "64", "0", "-1", "abc", "", "1.5", "33"}
var notePool = []string{"C", "C#", "Db", "B#", "Cb", "H", "", "c", "C##", "Cbb", "♯", strings.Repeat("G", 3000), "xC"}
var attrNamePool = []string{"Major3", "Minor7", "Perfect1", "Augmented19", "Diminished1", "", "Nosuch", "major3", "Major0", "Major99"}
var chainPool = []string{"p", "r", "d", "s", "prds", "", "x", "P", "dddddddddddd", strings.Repeat("ds", 5000), "p r", "é"}
var convPool = []string{"cmt", "", "x", "cmt,cmt", "cmt,nosuch", ",", "CMT"}

func genC09Fuzz(t *rapid.T) C09Fuzz {
	c := C09Fuzz{Files: map[string][]byte{}}
	kind := rapid.SampledFrom([]string{"text-parse", "text-conv-degree", "text-conv-syllable", "write", "write", "write-event", "write-parse", "write-conv",
		"info-attr-list", "info-attr-describe", "info-chord-list", "info-chord-describe", "info-key-list", "info-key-describe", "info-key-conv", "gen-attr", "midi-port", "root"}).Draw(t, "command")
	c.Kind = kind
	str := func(label string, pool []string) string {
		if coin(t, label+"-free", 10) {
			s := rapid.StringN(0, 40, -1).Draw(t, label+"-any")
			return strings.ReplaceAll(s, "\x00", "")
		}
		return rapid.SampledFrom(pool).Draw(t, label)
	}
	key := rapid.SampledFrom(theory.ListedKeys).Draw(t, "valid-key")
	// ---- input
	textInput := func(syll bool) []byte {
		if coin(t, "raw-bytes", 15) {
			return rapid.SliceOfN(rapid.Byte(), 0, 200).Draw(t, "raw")
		}
		o := ProgOpts{MaxItems: 6, Syllable: syll, MaxNum: 9, KeyChanges: 10, Settings: 15, Texts: 30, RestPct: 20, ExoticSyms: true}
		ps := genProgression(o, key).Draw(t, "prog")
		var s string
		if syll {
			ss, _ := SyllableSentence(ps, key)
			s = Render(ss, &rapidStyle{t: t, trivia: true, us: true, zeros: true, uni: true, nEdits: map[string]int{}})
		} else {
			s = Render(DegreeSentence(ps), canonStyle{})
		}
		b, _ := mutateBytes(t, []byte(s), hostileText)
		return b
	}
	yamlInput := func() []byte {
		if coin(t, "raw-bytes", 10) {
			return rapid.SliceOfN(rapid.Byte(), 0, 200).Draw(t, "raw")
		}
		d := genDoc(DocOpts{MaxInsts: 6, MaxIvNum: 20, Settings: 20, Meta: 40, RestPct: 25, Suffix: true}).Draw(t, "doc")
		b, _ := mutateBytes(t, []byte(d.YAML()), hostileYAML)
		return b
	}
	dictFlags := func() {
		if !coin(t, "dict", 30) {
			return
		}
		d, _ := genDict(t)
		files, _ := d.filesAndArgs()
		var names []string
		for n := range files {
			names = append(names, n)
		}
		sort.Strings(names)
		for _, n := range names {
			content := files[n]
			b, _ := mutateBytes(t, []byte(content), hostileDict)
			c.Files[n] = b
			if strings.HasPrefix(n, "attr") {
				c.Argv = append(c.Argv, "--attr", "@"+n)
			} else {
				c.Argv = append(c.Argv, "--chord", "@"+n)
			}
		}
		if coin(t, "missing-dict", 10) {
			c.Argv = append(c.Argv, "--chord", "/nonexistent/dict.yml")
		}
		if coin(t, "dir-dict", 5) {
			c.Argv = append(c.Argv, "--attr", "/")
		}
	}
	input := func(b []byte) {
		switch rapid.SampledFrom([]string{"stdin", "stdin", "file", "dash", "missing-file", "directory", "two-files"}).Draw(t, "input-path") {
		case "stdin":
			c.Stdin = b
		case "file":
			c.Files["input.txt"] = b
			c.Argv = append(c.Argv, "@input.txt")
		case "dash":
			c.Stdin = b
			c.Argv = append(c.Argv, "-")
		case "missing-file":
			c.Argv = append(c.Argv, "/nonexistent/input.txt")
		case "directory":
			c.Argv = append(c.Argv, "/")
		case "two-files":
			c.Files["input.txt"] = b
			c.Argv = append(c.Argv, "@input.txt", "@input.txt")
		}
	}
	writeFlags := func() {
		if coin(t, "fkey", 30) {
			c.Argv = append(c.Argv, "--key", str("key", keyPool))
		}
		if coin(t, "fbpm", 30) {
			c.Argv = append(c.Argv, "--bpm", str("bpm", uintPool))
		}
		if coin(t, "fmeter", 30) {
			c.Argv = append(c.Argv, "--meter", str("meter", meterPool))
		}
		if coin(t, "fvel", 30) {
			c.Argv = append(c.Argv, "--velocity", str("vel", velPool))
		}
		if coin(t, "ftrack", 30) {
			c.Argv = append(c.Argv, "--track", rapid.SampledFrom(trackPool).Draw(t, "track"))
		}
		if coin(t, "fprogram", 20) {
			c.Argv = append(c.Argv, "--program", str("program", uintPool))
		}
		if coin(t, "finstrument", 20) {
			c.Argv = append(c.Argv, "--instrument", str("instrument", []string{"", "Piano", strings.Repeat("x", 70000), "é\n"}))
		}
	}
	switch kind {
	case "text-parse":
		c.Argv = []string{"text", "parse"}
		input(textInput(rapid.Bool().Draw(t, "syll")))
	case "text-conv-degree":
		c.Argv = []string{"text", "conv", "degree"}
		input(textInput(false))
	case "text-conv-syllable":
		c.Argv = []string{"text", "conv", "syllable"}
		if coin(t, "k", 80) {
			k := key
			if coin(t, "badkey", 25) {
				k = str("key", keyPool)
			}
			c.Argv = append(c.Argv, "--key", k)
		}
		input(textInput(true))
	case "write", "write-event", "write-parse", "write-conv":
		c.Argv = map[string][]string{"write": {"write"}, "write-event": {"write", "event"}, "write-parse": {"write", "parse"}, "write-conv": {"write", "conv"}}[kind]
		if kind == "write-conv" && coin(t, "c", 90) {
			c.Argv = append(c.Argv, "-c", str("conv", convPool))
		}
		writeFlags()
		dictFlags()
		input(yamlInput())
	case "info-attr-list":
		c.Argv = []string{"info", "attr", "list"}
		dictFlags()
	case "info-attr-describe":
		c.Argv = []string{"info", "attr", "describe"}
		if coin(t, "t", 90) {
			c.Argv = append(c.Argv, "-t", str("attr", attrNamePool))
		}
		if coin(t, "r", 70) {
			c.Argv = append(c.Argv, "-r", str("note", notePool))
		}
		if rapid.Bool().Draw(t, "s") {
			c.Argv = append(c.Argv, "-s")
		}
		dictFlags()
	case "info-chord-list":
		c.Argv = []string{"info", "chord", "list"}
		dictFlags()
	case "info-chord-describe":
		c.Argv = []string{"info", "chord", "describe"}
		if coin(t, "t", 90) {
			tgt := str("note", notePool) + str("sym", append([]string{"_7", "nosuch", "[1]", "/E", "_", ";x", "{a=b}", " "}, theory.Displays...))
			c.Argv = append(c.Argv, "-t", tgt)
		}
		dictFlags()
	case "info-key-list":
		c.Argv = []string{"info", "key", "list"}
		if coin(t, "k", 30) {
			c.Argv = append(c.Argv, "--key", str("key", keyPool))
		}
	case "info-key-describe":
		c.Argv = []string{"info", "key", "describe"}
		if coin(t, "k", 90) {
			c.Argv = append(c.Argv, "--key", str("key", keyPool))
		}
	case "info-key-conv":
		c.Argv = []string{"info", "key", "conv"}
		if coin(t, "k", 80) {
			c.Argv = append(c.Argv, "--key", str("key", keyPool))
		}
		if coin(t, "c", 90) {
			c.Argv = append(c.Argv, "-c", str("chain", chainPool))
		}
	case "gen-attr":
		c.Argv = []string{"gen", "attr"}
		if coin(t, "d", 80) {
			c.Argv = append(c.Argv, "-d", rapid.SampledFrom([]string{"0", "1", "20", "100", "2000", "-1", "x", "", "1.5"}).Draw(t, "d"))
		}
	case "midi-port":
		c.Argv = []string{"midi", "port", rapid.SampledFrom([]string{"in", "out", "x"}).Draw(t, "dir")}
	case "root":
		c.Argv = [][]string{{}, {"nosuch"}, {"text"}, {"write", "nosuch"}, {"info"}, {"--nosuchflag"}, {"text", "conv"}, {"gen"}, {"help"}, {"text", "parse", "--help"}, {"completion", "bash"}, {"-o"}, {"--attr"}}[rapid.IntRange(0, 12).Draw(t, "rootcase")]
		c.Stdin = []byte("C[1]")
	}
	if coin(t, "debug", 15) {
		c.Argv = append(c.Argv, "--debug")
		// --debug logs several lines per input rune: keep the volume (not a hang) bounded
		if len(c.Stdin) > 16<<10 {
			c.Stdin = c.Stdin[:16<<10]
		}
		for n, b := range c.Files {
			if len(b) > 16<<10 {
				c.Files[n] = b[:16<<10]
			}
		}
	}
	switch rapid.SampledFrom([]string{"", "", "", "o", "o-missing-dir", "o-directory"}).Draw(t, "output-path") {
	case "o":
		c.Argv = append(c.Argv, "-o", "@out.bin")
		c.Out = true
		if rapid.Bool().Draw(t, "stale-out") {
			c.Files["out.bin"] = []byte("left over by an earlier run\n")
			c.Stale = true
		}
	case "o-missing-dir":
		c.Argv = append(c.Argv, "-o", "/nonexistent/dir/out.bin")
	case "o-directory":
		c.Argv = append(c.Argv, "-o", "/")
	}
	for _, a := range c.Argv {
		if strings.Contains(a, "\x00") {
			panic("NUL in argv")
		}
	}
	return c
}

func TestC09Fuzz(t *testing.T) {
	r := rec("C09")
	defer r.Flush()
	rapid.Check(t, func(t *rapid.T) {
		for j := 0; j < pick(8, 8); j++ {
			c := genC09Fuzz(t)
			r.Case(fmt.Sprint(c.Argv, h64(string(c.Stdin)), len(c.Files)), true, "process-fuzz", "fuzz:"+c.Kind)
			r.Sample(map[string]any{"argv": c.Argv, "stdin": clip(string(c.Stdin), 200)})
			v := checkC09Fuzz(c)
			r.Class(fmt.Sprintf("outcome:exit-%d", lastFuzzExit), 1)
			r.Check(t, v, "c09-fuzz", c)
		}
	})
}
