package harness

import (
	"fmt"
	"sort"
	"testing"

	"pgregory.net/rapid"
	"verifharness/smfread"
	"verifharness/theory"
)

// C01 - every chord sounds exactly the pitches its degree, symbol and bass denote.

type C01Case struct {
	Doc Doc `json:"doc"`
}

// noteGroups groups the note-ons of a single-track song: a group is a
// maximal run of note-ons not interrupted by a note-off (crd strikes all
// notes of a chord, then releases them). Independent of tick values.
func noteGroups(tr []smfread.Ev) [][]int {
	var groups [][]int
	var cur []int
	for _, e := range tr {
		switch {
		case e.IsNoteOn():
			cur = append(cur, int(e.D1))
		case e.IsNoteOff():
			if cur != nil {
				groups = append(groups, cur)
				cur = nil
			}
		}
	}
	if cur != nil {
		groups = append(groups, cur)
	}
	return groups
}

func sortedInts(a []int) []int {
	b := append([]int{}, a...)
	sort.Ints(b)
	return b
}

func eqInts(a, b []int) bool {
	if len(a) != len(b) {
		return false
	}
	for i := range a {
		if a[i] != b[i] {
			return false
		}
	}
	return true
}

func checkC01(c C01Case) *Violation {
	d := c.Doc
	d.Flags.Track = 1
	_, song, err := writeDoc(d)
	if err != nil {
		return vio("write-failed", "%v\nargs=%v\n%s", err, d.Flags.Argv(), d.YAML())
	}
	return comparePitches(d, song)
}

// comparePitches: the k-th run of note-ons of a single-track song against the k-th chord of the model.
func comparePitches(d Doc, song *smfread.Song) *Violation {
	if len(song.Tracks) != 1 {
		return vio("tracks", "expected one track, got %d", len(song.Tracks))
	}
	ms := d.Model(song.Division)
	var want [][]int
	var idx []int
	for i, m := range ms {
		if m.Notes != nil {
			want = append(want, m.Notes)
			idx = append(idx, i)
		}
	}
	got := noteGroups(song.Tracks[0])
	if len(got) != len(want) {
		return vio("chord-count", "document has %d chords, file has %d groups of note-ons\nargs=%v\n%s", len(want), len(got), d.Flags.Argv(), d.YAML())
	}
	for k := range want {
		if !eqInts(sortedInts(got[k]), sortedInts(want[k])) {
			in := d.Insts[idx[k]]
			return vio("pitches", "chord %d (instance %d: degree %s symbol %q bass %v, key in force %s): sounded %v, theory says %v\nargs=%v\n%s",
				k, idx[k], in.Chord.Deg.T(), in.Chord.Sym, in.Chord.Bass, ms[idx[k]].Key, sortedInts(got[k]), sortedInts(want[k]), d.Flags.Argv(), d.YAML())
		}
	}
	return nil
}

func c01Opts() DocOpts {
	return DocOpts{MaxInsts: pick(12, 40), MaxIvNum: 15, Settings: 20, Meta: 10, RestPct: 20, FlagsPct: 50, SimpleVals: true, Suffix: true}
}

func c01Stats(r *Rec, d Doc, ms []InstModel) {
	for i, in := range d.Insts {
		c := in.Chord
		if c == nil {
			continue
		}
		nt := ms[i].Key.String() != "C" || c.Deg.Num > 7 || theory.Qual(c.Deg.Qual) != theory.Major && theory.Qual(c.Deg.Qual) != theory.Perfect ||
			c.Bass != nil || len(theory.ChordTable[c.Sym]) != 3 || (i > 0 && in.Key != nil)
		var classes []string
		classes = append(classes, "chords")
		if ms[i].Key.String() != "C" {
			classes = append(classes, "chord-in-non-C-key")
		}
		if c.Bass != nil {
			classes = append(classes, "chord-with-bass")
		}
		if c.Deg.Num > 7 {
			classes = append(classes, "compound-degree")
		}
		if q := theory.Qual(c.Deg.Qual); q == theory.DAug || q == theory.DDim {
			classes = append(classes, "doubly-altered-degree")
		}
		if c.Long {
			classes = append(classes, "long-name")
		}
		if i > 0 && in.Key != nil {
			classes = append(classes, "chord-carrying-key-change")
		}
		b := "-"
		if c.Bass != nil {
			b = c.Bass.T().Notation()
		}
		r.Case(fmt.Sprintf("%s|%s|%s|%s", ms[i].Key, c.Deg.T().Notation(), c.Sym, b), nt, classes...)
	}
}

func init() { reg("c01", checkC01) }

func TestC01(t *testing.T) {
	r := rec("C01")
	defer r.Flush()
	replayCorpus(t, r, "C01")
	// bounded-exhaustive product (thorough): keys x intervals 1..15 x symbols, bass cycling
	if thorough() {
		var all []IV
		for n := 1; n <= 15; n++ {
			for _, q := range theory.QualsFor(n) {
				all = append(all, IV{n, int(q)})
			}
		}
		docNo := 0
		bi := 0
		for _, ks := range theory.ListedKeys {
			var d Doc
			k := ks
			flush := func() {
				if len(d.Insts) == 0 {
					return
				}
				if myShare(docNo) {
					dd := d
					dd.Flags.Track = 1
					if docNo%2 == 0 {
						dd.Flags.Key = &k
					} else {
						kk := k
						dd.Insts[0].Key = &kk
					}
					c01Stats(r, dd, dd.Model(960))
					r.Check(t, checkC01(C01Case{dd}), "c01", C01Case{dd})
				}
				docNo++
				d = Doc{}
			}
			for _, iv := range all {
				for _, sym := range theory.Displays {
					ch := &ChordSpec{Deg: iv, Sym: sym}
					if bi%3 != 0 {
						b := all[bi%len(all)]
						ch.Bass = &b
					}
					bi++
					d.Insts = append(d.Insts, Inst{Chord: ch, Values: []Frac{{1, 1}}})
					if len(d.Insts) == 50 {
						flush()
					}
				}
			}
			flush()
		}
		r.MarkExhaustive("28 keys x 75 intervals (1..15 x existing qualities) x 23 symbols")
	}
	o := c01Opts()
	rapid.Check(t, func(t *rapid.T) {
		d := genDoc(o).Draw(t, "doc")
		d.Flags.Track = 1
		if coin(t, "sub-tick-chord", 6) {
			// a chord shorter than half a tick still is a chord: its pitches are struck (and released at once)
			j := rapid.IntRange(0, len(d.Insts)-1).Draw(t, "sub-at")
			if d.Insts[j].Chord != nil {
				d.Insts[j].Values = rapid.SampledFrom([][]Frac{{{1, 1921}}, {{1, 4096}}, {{1, 4000}, {1, 4000}}, {{3, 7000}}}).Draw(t, "sub-values")
				r.Class("chord-shorter-than-half-a-tick", 1)
			}
		}
		c := C01Case{d}
		c01Stats(r, d, d.Model(960))
		r.Sample(map[string]any{"args": d.Flags.Argv(), "yaml": d.YAML()})
		r.Check(t, checkC01(c), "c01", c)
	})
}
