package harness

import (
	"fmt"
	"sort"
	"strings"
	"testing"

	"pgregory.net/rapid"
	"verifharness/smfread"
	"verifharness/theory"
)

// C07 - tempo, meter, key-signature and text events: right value, right time.

type C07Case struct {
	Doc Doc `json:"doc"`
}

func tempoOK(us, bpm int) bool {
	lo := 60000000 / bpm
	return us == lo || us == lo+1 && (60000000%bpm)*2 >= bpm
}

func log2(d int) int {
	n := 0
	for d > 1 {
		d >>= 1
		n++
	}
	return n
}

// chordVelocities returns, per chord in order of onset, the set of note-on velocities.
func chordVelocities(song *smfread.Song) [][]int {
	by := map[int64][]int{}
	for _, tr := range song.Tracks {
		for _, e := range tr {
			if e.IsNoteOn() {
				by[e.Tick] = append(by[e.Tick], int(e.D2))
			}
		}
	}
	var ticks []int64
	for t := range by {
		ticks = append(ticks, t)
	}
	sort.Slice(ticks, func(i, j int) bool { return ticks[i] < ticks[j] })
	var r [][]int
	for _, t := range ticks {
		r = append(r, by[t])
	}
	return r
}

// unencodableTempo: a set-tempo event holds the microseconds per quarter note, 60,000,000/bpm, in three bytes: 1..0xFFFFFF.
// Below 4 bpm and above 60,000,000 bpm there is no such event, so the statement of C07 cannot be met by any file.
func unencodableTempo(d Doc) (int, bool) {
	for _, m := range d.Model(960) {
		if m.Tempo != nil && (*m.Tempo < 4 || *m.Tempo > 60000000) {
			return *m.Tempo, true
		}
	}
	return 0, false
}

// meterFit: a time-signature event holds the numerator in one byte and the denominator as a power of two.
// "never": no event can state the meter (numerator above 255, denominator not a power of two): only a refusal is
// faithful. "maybe": the format could (denominator 256 and up) but a writer may not support it: refusal or the right event.
func meterFit(d Doc) (Frac, string) {
	for _, m := range d.Model(960) {
		if m.Meter == nil {
			continue
		}
		n, den := m.Meter.N, m.Meter.D
		if n > 255 || den < 1 || den&(den-1) != 0 {
			return *m.Meter, "never"
		}
		if den > 128 {
			return *m.Meter, "maybe"
		}
	}
	return Frac{}, ""
}

func checkC07(c C07Case) *Violation {
	d := c.Doc
	if mt, fit := meterFit(d); fit != "" {
		res := Run{Argv: append([]string{"write"}, d.Flags.Argv()...), Stdin: d.YAML()}.Exec()
		if v := cleanOutcome(res); v != nil {
			return v
		}
		if res.Exit != 0 {
			return nil
		}
		if fit == "never" {
			return vio("meter-unencodable-accepted", "a meter of %d/%d does not fit a time-signature event (numerator in one byte, denominator a power of two), yet `crd write` exits 0 with %d bytes\nargs=%v\n%s", mt.N, mt.D, len(res.Stdout), d.Flags.Argv(), d.YAML())
		}
		// accepted: then it has to be right (compared below)
	}
	if bpm, bad := unencodableTempo(d); bad {
		// the only faithful outcome is a refusal; a file stating some other tempo is different music
		res := Run{Argv: append([]string{"write"}, d.Flags.Argv()...), Stdin: d.YAML()}.Exec()
		if v := cleanOutcome(res); v != nil {
			return v
		}
		if res.Exit == 0 {
			return vio("tempo-unencodable-accepted", "a tempo of %d bpm (%d us per quarter note) does not fit a set-tempo event, yet `crd write` exits 0 with %d bytes\nargs=%v\n%s", bpm, 60000000/maxInt(bpm, 1), len(res.Stdout), d.Flags.Argv(), d.YAML())
		}
		return nil
	}
	_, song, err := writeDoc(d)
	if err != nil {
		return vio("write-failed", "%v\nargs=%v\n%s", err, d.Flags.Argv(), d.YAML())
	}
	return compareSettings(d, song)
}

// compareSettings: tempo / meter / key signature / texts / velocities of a decoded song against the model.
func compareSettings(d Doc, song *smfread.Song) *Violation {
	ctx := fmt.Sprintf("\nargs=%v\n%s", d.Flags.Argv(), d.YAML())
	ms := d.Model(song.Division)
	obs, _ := Observed(song)
	// instance starts from the exact model (documents of this check have no exact halves)
	var clock int64
	type setting struct {
		tick int64
		val  [2]int
		bpm  int
	}
	var expTempo, expMeter, expKey []setting
	var expText []string
	for i, m := range ms {
		if m.LenLo != m.LenHi {
			return vio("harness", "C07 generator produced an exact half at instance %d", i)
		}
		if m.Tempo != nil {
			expTempo = append(expTempo, setting{tick: clock, bpm: *m.Tempo})
		}
		if m.Meter != nil {
			expMeter = append(expMeter, setting{tick: clock, val: [2]int{m.Meter.N, log2(m.Meter.D)}})
		}
		if m.KeySig != nil {
			mi := 0
			if m.KeySig.Minor {
				mi = 1
			}
			expKey = append(expKey, setting{tick: clock, val: [2]int{m.KeySig.Sig(), mi}})
		}
		for _, x := range m.Texts {
			x.Tick = clock
			expText = append(expText, x.String())
		}
		clock += m.LenLo
	}
	inForce := func(exp []setting, tick int64) *setting {
		var cur *setting
		for i := range exp {
			if exp[i].tick <= tick {
				cur = &exp[i]
			}
		}
		return cur
	}
	// 1. every expected statement is present at its tick
	has := func(kind string, tick int64, ok func(XEv) bool) bool {
		for _, e := range obs {
			if e.Kind == kind && e.Tick == tick && ok(e) {
				return true
			}
		}
		return false
	}
	for _, s := range expTempo {
		if !has("tempo", s.tick, func(e XEv) bool { return tempoOK(e.A, s.bpm) }) {
			return vio("tempo-missing", "no tempo event for %d bpm (%d us/quarter) at tick %d; observed %v%s", s.bpm, 60000000/s.bpm, s.tick, canon(obs, "tempo"), ctx)
		}
	}
	for _, s := range expMeter {
		if !has("meter", s.tick, func(e XEv) bool { return e.A == s.val[0] && e.B == s.val[1] }) {
			return vio("meter-missing", "no time signature %d/2^%d at tick %d; observed %v%s", s.val[0], s.val[1], s.tick, canon(obs, "meter"), ctx)
		}
	}
	for _, s := range expKey {
		if !has("key", s.tick, func(e XEv) bool { return e.A == s.val[0] && e.B == s.val[1] }) {
			return vio("keysig-missing", "no key signature sf=%d mi=%d at tick %d; observed %v%s", s.val[0], s.val[1], s.tick, canon(obs, "key"), ctx)
		}
	}
	// 2. every observed statement restates the value in force at its tick
	for _, e := range obs {
		switch e.Kind {
		case "tempo":
			if s := inForce(expTempo, e.Tick); s == nil || !tempoOK(e.A, s.bpm) {
				return vio("tempo-wrong", "tempo event %d us/quarter at tick %d, but the tempo in force there is %v bpm%s", e.A, e.Tick, s, ctx)
			}
		case "meter":
			if s := inForce(expMeter, e.Tick); s == nil || e.A != s.val[0] || e.B != s.val[1] {
				return vio("meter-wrong", "time signature %d/2^%d at tick %d, in force: %v%s", e.A, e.B, e.Tick, s, ctx)
			}
		case "key":
			if s := inForce(expKey, e.Tick); s == nil || e.A != s.val[0] || e.B != s.val[1] {
				return vio("keysig-wrong", "key signature sf=%d mi=%d at tick %d, in force: %v%s", e.A, e.B, e.Tick, s, ctx)
			}
		}
	}
	// 3. text / lyric / marker: exact multiset
	sort.Strings(expText)
	gotText := canon(obs, "text", "lyric", "marker")
	if strings.Join(expText, "\n") != strings.Join(gotText, "\n") {
		return vio("texts", "text events differ\nexpected:\n%s\nobserved:\n%s%s", strings.Join(expText, "\n"), strings.Join(gotText, "\n"), ctx)
	}
	// 4. velocities: a function of the dynamic in force, strictly increasing pp..ff
	vels := chordVelocities(song)
	var dyn []string
	for _, m := range ms {
		if m.Notes != nil {
			dyn = append(dyn, m.Vel)
		}
	}
	if len(vels) != len(dyn) {
		return vio("velocity-chords", "document has %d chords, notes start at %d distinct ticks%s", len(dyn), len(vels), ctx)
	}
	table := map[string]int{}
	for k, vs := range vels {
		for _, v := range vs {
			if prev, ok := table[dyn[k]]; ok && prev != v {
				return vio("velocity", "dynamic %s sounds with velocity %d and %d%s", dyn[k], prev, v, ctx)
			}
			table[dyn[k]] = v
		}
	}
	last := -1
	lastName := ""
	for _, name := range theory.Dynamics {
		if v, ok := table[name]; ok {
			if v <= last {
				return vio("velocity-order", "%s (velocity %d) is not louder than %s (velocity %d)%s", name, v, lastName, last, ctx)
			}
			last, lastName = v, name
		}
	}
	return nil
}

func c07Opts() DocOpts {
	return DocOpts{MaxInsts: pick(10, 30), MaxIvNum: 8, Settings: 30, Meta: 40, RestPct: 35, FlagsPct: 50, MultiTrack: true, MaxTrack: 5, SimpleVals: true}
}

func c07Stats(r *Rec, d Doc) {
	nt := false
	var classes []string
	for i, in := range d.Insts {
		set := in.BPM != nil || in.Meter != nil || in.Key != nil || in.Vel != nil
		if i > 0 && set {
			nt = true
			classes = append(classes, "setting-after-first-instance")
		}
		if in.Chord == nil && (set || in.Txt != nil) {
			nt = true
			classes = append(classes, "setting-on-rest")
		}
		if i > 0 && d.Insts[i-1].Chord == nil && (set || in.Txt != nil) {
			classes = append(classes, "setting-right-after-rest")
		}
		for _, v := range in.Txt {
			for _, c := range v {
				if c > 127 {
					nt = true
					classes = append(classes, "non-ascii-text")
					break
				}
			}
		}
	}
	f, i0 := d.Flags, d.Insts[0]
	if f.BPM != nil && i0.BPM != nil || f.Key != nil && i0.Key != nil || f.Meter != nil && i0.Meter != nil || f.Vel != nil && i0.Vel != nil {
		nt = true
		classes = append(classes, "flag-competes-with-first-instance")
	}
	r.Case(d.YAML()+fmt.Sprint(d.Flags.Argv()), nt, dedup(classes)...)
}

func init() { reg("c07", checkC07) }

// C07Text: the same statement for a piece that arrives as chord text: what `{bpm=..}`, `{key=..}`,
// `{txt=..}` ... say must reach the file through `text conv | write` unchanged (astconv is part of C07's anchors).
type C07Text struct {
	Mode  string  `json:"mode"` // degree | syllable
	Key   string  `json:"key"`
	Items []PItem `json:"items"`
}

func checkC07Text(c C07Text) *Violation {
	var sent []SItem
	convArgs := []string{"text", "conv", c.Mode}
	if c.Mode == "degree" {
		sent = DegreeSentence(c.Items)
	} else {
		s, ok := SyllableSentence(c.Items, c.Key)
		if !ok {
			return vio("harness", "not expressible in %s", c.Key)
		}
		sent = s
		convArgs = append(convArgs, "--key", c.Key)
	}
	text := Render(sent, canonStyle{})
	conv := crd(text, convArgs...)
	if v := cleanOutcome(conv); v != nil {
		return v
	}
	if conv.Exit != 0 {
		return vio("text-conv-rejected", "crd %s refuses %q: %s", strings.Join(convArgs, " "), text, firstLines(conv.Stderr, 2))
	}
	wr := crd(string(conv.Stdout), "write", "--key", c.Key)
	if v := cleanOutcome(wr); v != nil {
		return v
	}
	ctx := fmt.Sprintf("\ntext %q -> crd %s ->\n%s", text, strings.Join(convArgs, " "), clip(string(conv.Stdout), 1500))
	if wr.Exit != 0 {
		return vio("text-write-refused", "`crd write` refuses what `text conv` printed: %s%s", firstLines(wr.Stderr, 2), ctx)
	}
	_, song, err := decode(wr.Stdout)
	if err != nil {
		return vio("not-smf", "%v", err)
	}
	d := ProgressionDoc(c.Items)
	k := c.Key
	d.Flags.Key = &k
	if v := compareSettings(d, song); v != nil {
		v.Sig = "text-" + v.Sig
		v.Msg += ctx
		return v
	}
	return nil
}

func init() { reg("c07-text", checkC07Text) }

func TestC07(t *testing.T) {
	r := rec("C07")
	defer r.Flush()
	replayCorpus(t, r, "C07")
	if shardIndex() == 0 {
		// deterministic: all six dynamics in one piece, ascending and descending
		var d Doc
		for _, name := range append(append([]string{}, theory.Dynamics...), "f", "mf", "mp", "p", "pp") {
			n := name
			d.Insts = append(d.Insts, Inst{Chord: &ChordSpec{Deg: IV{1, int(theory.Perfect)}, Sym: ""}, Values: []Frac{{1, 1}}, Vel: &n})
		}
		d.Flags.Track = 1
		c07Stats(r, d)
		r.Check(t, checkC07(C07Case{d}), "c07", C07Case{d})
		// every key's signature
		for _, ks := range theory.ListedKeys {
			k := ks
			dd := Doc{Insts: []Inst{{Chord: &ChordSpec{Deg: IV{1, int(theory.Perfect)}, Sym: "m"}, Values: []Frac{{1, 1}}}, {Values: []Frac{{1, 2}}, Key: &k}}, Flags: Flags{Track: 1}}
			c07Stats(r, dd)
			r.Check(t, checkC07(C07Case{dd}), "c07", C07Case{dd})
		}
	}
	o := c07Opts()
	rapid.Check(t, func(t *rapid.T) {
		d := genDoc(o).Draw(t, "doc")
		if coin(t, "odd-lengths", 25) {
			// instances whose lengths are not whole ticks (thirds, sevenths ... of a beat; never an exact half tick, which
			// needs a denominator of 128 or more): the events of the next instance sit at the rounded tick
			for i := range d.Insts {
				if rapid.Bool().Draw(t, "odd-length-here") {
					d.Insts[i].Values = []Frac{{rapid.IntRange(1, 9).Draw(t, "odd-n"), rapid.SampledFrom([]int{3, 5, 7, 9, 11, 13}).Draw(t, "odd-d")}}
				}
			}
			r.Class("instance-lengths-off-the-tick-grid", 1)
		}
		if coin(t, "extreme-tempo", 8) {
			// the ends of what a set-tempo event can say, and just beyond them
			v := rapid.SampledFrom([]int{1, 2, 3, 4, 5, 60000000, 59999999, 16777216, 1000000, 60000001, 100000000, 4294967295}).Draw(t, "extreme-bpm")
			if len(d.Insts) > 0 && coin(t, "extreme-by-flag", 25) {
				d.Flags.BPM = &v
			} else {
				d.Insts[rapid.IntRange(0, len(d.Insts)-1).Draw(t, "extreme-at")].BPM = &v
			}
			if _, bad := unencodableTempo(d); bad {
				r.Class("tempo-beyond-a-set-tempo-event(must be refused)", 1)
			} else {
				r.Class("tempo-at-the-limits-of-a-set-tempo-event", 1)
			}
		}
		if coin(t, "extreme-meter", 6) {
			v := rapid.SampledFrom([]Frac{{3, 5}, {4, 3}, {7, 6}, {5, 12}, {300, 4}, {256, 4}, {255, 4}, {255, 128}, {4, 128}, {4, 256}, {3, 512}, {65536, 4}, {1, 1}, {1, 128}}).Draw(t, "extreme-meter-value")
			if coin(t, "extreme-meter-by-flag", 25) {
				d.Flags.Meter = &v
			} else {
				d.Insts[rapid.IntRange(0, len(d.Insts)-1).Draw(t, "extreme-meter-at")].Meter = &v
			}
			if _, fit := meterFit(d); fit == "never" {
				r.Class("meter-beyond-a-time-signature-event(must be refused)", 1)
			} else {
				r.Class("meter-at-the-limits-of-a-time-signature-event", 1)
			}
		}
		c := C07Case{d}
		c07Stats(r, d)
		r.Sample(map[string]any{"args": d.Flags.Argv(), "yaml": d.YAML()})
		r.Check(t, checkC07(c), "c07", c)
		if coin(t, "from-text", 25) {
			mode := rapid.SampledFrom([]string{"degree", "syllable"}).Draw(t, "mode")
			key := rapid.SampledFrom(theory.ListedKeys).Draw(t, "key")
			po := ProgOpts{MaxItems: pick(6, 16), Syllable: mode == "syllable", MaxNum: 9, KeyChanges: 15, Settings: 30, Texts: 50, RestPct: 25, SimpleVals: true}
			ps := genProgression(po, key).Draw(t, "prog")
			tc := C07Text{Mode: mode, Key: key, Items: ps}
			nt := false
			cls := []string{"from-chord-text"}
			for i, p := range ps {
				if len(p.Txt) > 0 {
					nt = true
					cls = append(cls, "text-metadata-in-chord-text")
				}
				if i > 0 && (p.BPM != nil || p.Mtr != nil || p.Key != nil || p.Vel != nil) {
					nt = true
					cls = append(cls, "setting-change-in-chord-text")
				}
			}
			r.Case("T"+mode+key+Render(DegreeSentence(ps), canonStyle{}), nt, dedup(cls)...)
			r.Check(t, checkC07Text(tc), "c07-text", tc)
		}
	})
}
