package harness

import (
	"fmt"
	"strings"
	"testing"

	"github.com/berquerant/crd/astconv"
	"github.com/berquerant/crd/input/ast"
	"github.com/berquerant/crd/op"
	"gopkg.in/yaml.v3"
	"pgregory.net/rapid"
	"verifharness/theory"
)

// C03 - note names map to the right interval in every key.

type C03Case struct {
	Key  string `json:"key"`
	Root string `json:"root"`
	Bass string `json:"bass,omitempty"`
	CLI  bool   `json:"cli,omitempty"`
	Uni  bool   `json:"uni,omitempty"` // CLI: the accidentals are written with the Unicode signs
}

// eofGuard turns a lexer that never stops at end of input into a panic the harness can recover.
type hangSentinel struct{}

type eofGuard struct {
	r    *strings.Reader
	eofs int
}

func (g *eofGuard) Read(p []byte) (int, error) {
	n, err := g.r.Read(p)
	if err != nil {
		g.eofs++
		if g.eofs > 200 {
			panic(hangSentinel{})
		}
	}
	return n, err
}

// implParse runs crd's parser in process. hang=true: did not terminate at end of input.
func implParse(s string) (tree *ast.ChordList, err error, hang bool) {
	defer func() {
		if r := recover(); r != nil {
			if _, is := r.(hangSentinel); is {
				hang = true
				return
			}
			panic(r)
		}
	}()
	lex := ast.NewLexer(&eofGuard{r: strings.NewReader(s)})
	_ = ast.Parse(lex)
	return lex.Result, lex.Err(), false
}

// expectedDegree: number from the letter distance, quality from the pitch distance.
func intervalBetween(from, to theory.Note) (theory.Interval, bool) {
	num := (theory.LetterIndex(to.Letter)-theory.LetterIndex(from.Letter)+7)%7 + 1
	dist := (((to.Pitch() - from.Pitch()) % 12) + 12) % 12
	for _, q := range theory.QualsFor(num) {
		iv := theory.Interval{Num: num, Qual: q}
		if ((iv.Semis()%12)+12)%12 == dist {
			// representative nearest the major-scale size: the quality is unique within doubly altered range
			return iv, true
		}
	}
	return theory.Interval{}, false
}

func checkInterval(what string, from, to theory.Note, gotText string) *Violation {
	got, ok := theory.ReadNotation(gotText)
	if !ok || !got.Exists() {
		return vio("degree-unreadable", "%s: degree %q is not an interval", what, gotText)
	}
	wantNum := (theory.LetterIndex(to.Letter)-theory.LetterIndex(from.Letter)+7)%7 + 1
	if got.Num != wantNum {
		return vio("degree-number", "%s: %s above %s is a %d by letters, crd says %q", what, to, from, wantNum, gotText)
	}
	dist := (((to.Pitch() - from.Pitch()) % 12) + 12) % 12
	if ((got.Semis()%12)+12)%12 != dist {
		return vio("degree-size", "%s: %s lies %d semitones above %s, crd says %q = %d semitones", what, to, dist, from, gotText, got.Semis())
	}
	return nil
}

func checkC03(c C03Case) *Violation {
	key := theory.ParseKey(c.Key)
	root, _ := parseNoteName(c.Root)
	text := c.Root
	var bass *theory.Note
	if c.Bass != "" {
		b, _ := parseNoteName(c.Bass)
		bass = &b
		text += "/" + c.Bass
	}
	text += "[1]"
	what := fmt.Sprintf("%q in %s", text, c.Key)
	var degText, baseText string
	var hasBase, failed bool
	if c.CLI {
		if c.Uni {
			uni := func(n string) string {
				if len(n) == 2 {
					return n[:1] + map[byte]string{'#': "♯", 'b': "♭"}[n[1]]
				}
				return n
			}
			text = uni(c.Root)
			if c.Bass != "" {
				text += "/" + uni(c.Bass)
			}
			text += "[1]"
			what = fmt.Sprintf("%q in %s", text, c.Key)
		}
		res := crd(text+"\n", "text", "conv", "syllable", "--key", c.Key)
		if v := cleanOutcome(res); v != nil {
			v.Msg = what + ": " + v.Msg
			return v
		}
		if res.Exit != 0 {
			failed = true
		} else {
			var doc []map[string]any
			if err := yaml.Unmarshal(res.Stdout, &doc); err != nil || len(doc) != 1 {
				return vio("conv-output", "%s: cannot read output %q", what, clip(string(res.Stdout), 200))
			}
			ch, _ := doc[0]["chord"].(map[string]any)
			degText, _ = ch["degree"].(string)
			if b, ok := ch["base"]; ok {
				baseText, _ = b.(string)
				hasBase = true
			}
		}
	} else {
		v := safely(func() *Violation {
			tree, err, hang := implParse(text)
			if hang || err != nil || tree == nil || len(tree.List) != 1 {
				return vio("parse", "%s: does not parse (err %v, hang %v)", what, err, hang)
			}
			pk, err := op.ParseKey(c.Key)
			if err != nil {
				return vio("parsekey", "%v", err)
			}
			scale, err := op.NewScale(pk)
			if err != nil {
				return vio("scale", "%s: %v", c.Key, err)
			}
			inst, err := astconv.NewSyllableASTConverter(scale).Convert(tree.List[0])
			if err != nil {
				failed = true
				return nil
			}
			if inst == nil || inst.Chord == nil {
				return vio("conv-output", "%s: no chord and no error", what)
			}
			degText = inst.Chord.Degree.String()
			if inst.Chord.Base != nil {
				baseText = inst.Chord.Base.String()
				hasBase = true
			}
			return nil
		})
		if v != nil {
			return v
		}
	}
	// the seven scale notes are always accepted, as roots and as basses over one another
	inScale := func(n theory.Note) (int, bool) {
		for i, s := range key.Scale() {
			if s == n {
				return i, true
			}
		}
		return 0, false
	}
	ri, rootIn := inScale(root)
	bassIn := true
	if bass != nil {
		_, bassIn = inScale(*bass)
	}
	if failed {
		if rootIn && bassIn {
			return vio("scale-note-rejected", "%s: notes of the key's own scale are refused", what)
		}
		return nil // an error is allowed for notes the notation cannot express
	}
	if v := checkInterval(what+" root", key.Tonic(), root, degText); v != nil {
		return v
	}
	if rootIn {
		// own degrees: number = position, quality of the major / natural-minor scale
		want := []string{"1", "2", "3", "4", "5", "6", "7"}
		if key.Minor {
			want = []string{"1", "2", "b3", "4", "5", "b6", "b7"}
		}
		gotIv, ok1 := theory.ReadNotation(degText)
		wantIv, _ := theory.ReadNotation(want[ri])
		if !ok1 || gotIv != wantIv {
			return vio("scale-degree", "%s: scale note %d of %s converts to %q, the scale's own degree is %q", what, ri+1, c.Key, degText, want[ri])
		}
	}
	if (bass != nil) != hasBase {
		return vio("bass-presence", "%s: bass written=%v, base emitted=%v", what, bass != nil, hasBase)
	}
	if bass != nil {
		if v := checkInterval(what+" bass", root, *bass, baseText); v != nil {
			return v
		}
	}
	return nil
}

func init() { reg("c03", checkC03) }

// C03Seq: the same statement along a piece. The key in force changes with {key=..} (on chords and on rests) and
// roots recur before and after a change: every chord is still measured from the tonic in force where it stands.
type C03Seq struct {
	Key   string  `json:"key"`
	Items []PItem `json:"items"`
	ToOut bool    `json:"to_out,omitempty"` // the result is written with -o FILE and read from there
}

func checkC03Seq(c C03Seq) *Violation {
	ss, ok := SyllableSentence(c.Items, c.Key)
	if !ok {
		return vio("harness", "progression not expressible in %s", c.Key)
	}
	text := Render(ss, canonStyle{})
	res := crd(text, "text", "conv", "syllable", "--key", c.Key)
	if c.ToOut {
		res = Run{Argv: []string{"text", "conv", "syllable", "--key", c.Key, "-o", "@conv.yml"}, Stdin: text, OutArg: "conv.yml"}.Exec()
		if res.Exit == 0 && len(res.Stdout) == 0 {
			res.Stdout = res.OutFile
		}
	}
	if v := cleanOutcome(res); v != nil {
		return v
	}
	if res.Exit != 0 {
		return vio("sequence-rejected", "text conv syllable --key %s refuses %q, whose notes all are expressible in the key in force: %s", c.Key, text, firstLines(res.Stderr, 2))
	}
	var doc []map[string]any
	if err := yaml.Unmarshal(res.Stdout, &doc); err != nil || len(doc) != len(c.Items) {
		return vio("conv-output", "%q: %d items written, output has %d entries (%v)", text, len(c.Items), len(doc), err)
	}
	inForce := c.Key
	for i, it := range c.Items {
		if it.Key != nil {
			inForce = *it.Key
		}
		ch, has := doc[i]["chord"].(map[string]any)
		if it.Rest {
			if has {
				return vio("conv-output", "%q: item %d is a rest, the output has a chord", text, i)
			}
			continue
		}
		what := fmt.Sprintf("%q (--key %s), item %d, key in force %s", text, c.Key, i, inForce)
		degText, _ := ch["degree"].(string)
		got, ok := theory.ReadNotation(degText)
		if !ok || got != it.Deg.T() {
			return vio("sequence-degree", "%s: root %s above the tonic expected, crd says %q", what, it.Deg.T().Notation(), degText)
		}
		b, hasBase := ch["base"]
		if (it.Bass != nil) != hasBase {
			return vio("bass-presence", "%s: bass written=%v, base emitted=%v", what, it.Bass != nil, hasBase)
		}
		if it.Bass != nil {
			bt, _ := b.(string)
			gb, ok := theory.ReadNotation(bt)
			if !ok || gb != it.Bass.T() {
				return vio("sequence-degree", "%s: bass %s above the root expected, crd says %q", what, it.Bass.T().Notation(), bt)
			}
		}
	}
	return nil
}

func init() { reg("c03-seq", checkC03Seq) }

// C03Dbl: a note written with two accidentals (F##, Bbb, E#b, with ASCII or Unicode signs) is outside what the text
// language writes with one optional sign. Whatever crd does with it, it is "an error, never a different degree":
// a refusal, or the degree of the note that was written (letter distance, pitch distance with both signs counted).
type C03Dbl struct {
	Key    string `json:"key"`
	Letter string `json:"letter"`
	Signs  string `json:"signs"`
	AsBass bool   `json:"as_bass,omitempty"`
}

func checkC03Dbl(c C03Dbl) *Violation {
	key := theory.ParseKey(c.Key)
	n := theory.Note{Letter: c.Letter[0]}
	for _, r := range c.Signs {
		if r == '#' || r == '♯' {
			n.Acc++
		} else {
			n.Acc--
		}
	}
	text := c.Letter + c.Signs + "[1]"
	from := key.Tonic()
	if c.AsBass {
		text = key.Tonic().String() + "/" + c.Letter + c.Signs + "[1]"
	}
	what := fmt.Sprintf("%q in %s", text, c.Key)
	res := crd(text+"\n", "text", "conv", "syllable", "--key", c.Key)
	if v := cleanOutcome(res); v != nil {
		v.Msg = what + ": " + v.Msg
		return v
	}
	if res.Exit != 0 {
		return nil
	}
	var doc []map[string]any
	if err := yaml.Unmarshal(res.Stdout, &doc); err != nil || len(doc) != 1 {
		return vio("conv-output", "%s: cannot read output %q", what, clip(string(res.Stdout), 200))
	}
	ch, _ := doc[0]["chord"].(map[string]any)
	field := "degree"
	if c.AsBass {
		field = "base"
	}
	got, has := ch[field].(string)
	if !has {
		return vio("double-accidental-dropped", "%s: accepted, but no %s is emitted for the doubly altered note", what, field)
	}
	if v := checkInterval(what+" (two accidentals)", from, n, got); v != nil {
		v.Sig = "double-accidental-" + v.Sig
		return v
	}
	return nil
}

func init() { reg("c03-dbl", checkC03Dbl) }

func TestC03(t *testing.T) {
	r := rec("C03")
	defer r.Flush()
	replayCorpus(t, r, "C03")
	notes := theory.AllNotes21()
	i := 0
	cliStep := pick(11, 1)
	nfail := 0
	for _, k := range theory.ListedKeys {
		key := theory.ParseKey(k)
		for _, root := range notes {
			for bi := -1; bi < len(notes); bi++ {
				c := C03Case{Key: k, Root: root.String()}
				if bi >= 0 {
					c.Bass = notes[bi].String()
				}
				if myShare(i) {
					nt := !(root == key.Tonic() && bi < 0)
					r.CaseBC(nt, "library")
					if len(r.Samples) < 6 && i%1013 == shardIndex() {
						r.Samples = append(r.Samples, c)
					}
					r.Check(t, checkC03(c), "c03", c)
					if i%cliStep == 0 {
						cc := c
						cc.CLI = true
						cc.Uni = (i/cliStep)%2 == 1
						r.CaseBC(nt, "through-cli")
						r.Check(t, checkC03(cc), "c03", cc)
					}
				}
				i++
			}
		}
	}
	di := 0
	for _, k := range theory.ListedKeys {
		for _, l := range theory.Letters {
			for _, sg := range []string{"##", "bb", "#b", "b#", "♯♯", "♭♭", "#♯", "♭b"} {
				for _, bass := range []bool{false, true} {
					if myShare(di) && (thorough() || di%4 == 0) {
						c := C03Dbl{Key: k, Letter: string(l), Signs: sg, AsBass: bass}
						r.CaseBC(true, "two-accidentals")
						r.Check(t, checkC03Dbl(c), "c03-dbl", c)
					}
					di++
				}
			}
		}
	}
	rapid.Check(t, func(t *rapid.T) {
		key := rapid.SampledFrom(theory.ListedKeys).Draw(t, "key")
		o := ProgOpts{MaxItems: pick(8, 16), Syllable: true, KeyChanges: 25, Settings: 5, Texts: 5, RestPct: 25, SimpleVals: true}
		ps := genProgression(o, key).Draw(t, "prog")
		// roots recur: repeat earlier chords after later key changes
		if len(ps) >= 3 && coin(t, "recurring-roots", 60) {
			for n := rapid.IntRange(1, 4).Draw(t, "nrecur"); n > 0; n-- {
				src := ps[rapid.IntRange(0, len(ps)-1).Draw(t, "recur-src")]
				src.Key, src.BPM, src.Vel, src.Mtr, src.Txt = nil, nil, nil, nil, nil
				ps = append(ps, src)
			}
		}
		c := C03Seq{Key: key, Items: ps, ToOut: coin(t, "to-o-file", 20)}
		changes, onRest := 0, false
		for i, p := range ps {
			if i > 0 && p.Key != nil {
				changes++
				if p.Rest {
					onRest = true
				}
			}
		}
		cls := []string{"sequence"}
		if changes > 0 {
			cls = append(cls, "sequence-with-key-change")
		}
		if onRest {
			cls = append(cls, "key-change-carried-by-a-rest")
		}
		if _, ok := SyllableSentence(ps, key); !ok {
			r.Exclude("recurring chord not expressible in the later key")
			return
		}
		r.Case("Q"+key+Render(DegreeSentence(ps), canonStyle{}), changes > 0, cls...)
		r.Check(t, checkC03Seq(c), "c03-seq", c)
	})
	_ = nfail
	msg := "28 keys x 21 roots x (no bass + 21 basses) = 12,936 chords via ast.Parse + NewSyllableASTConverter"
	if cliStep == 1 {
		msg += " and via `crd text conv syllable`"
	}
	r.MarkExhaustive(msg)
}
