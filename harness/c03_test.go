package harness

import (
	"fmt"
	"strings"
	"testing"

	"github.com/berquerant/crd/astconv"
	"github.com/berquerant/crd/input/ast"
	"github.com/berquerant/crd/op"
	"gopkg.in/yaml.v3"
	"verifharness/theory"
)

// C03 - note names map to the right interval in every key.

type C03Case struct {
	Key  string `json:"key"`
	Root string `json:"root"`
	Bass string `json:"bass,omitempty"`
	CLI  bool   `json:"cli,omitempty"`
}

// eofGuard turns a lexer that never stops at end of input into a panic the harness can recover.
type hangSentinel struct{}

type eofGuard struct {
	r    *strings.Reader
	eofs int
}

func (g *eofGuard) Read(p []byte) (int, error) {
	n, err := g.r.Read(p)
	if err != nil {
		g.eofs++
		if g.eofs > 200 {
			panic(hangSentinel{})
		}
	}
	return n, err
}

// implParse runs crd's parser in process. hang=true: did not terminate at end of input.
func implParse(s string) (tree *ast.ChordList, err error, hang bool) {
	defer func() {
		if r := recover(); r != nil {
			if _, is := r.(hangSentinel); is {
				hang = true
				return
			}
			panic(r)
		}
	}()
	lex := ast.NewLexer(&eofGuard{r: strings.NewReader(s)})
	_ = ast.Parse(lex)
	return lex.Result, lex.Err(), false
}

// expectedDegree: number from the letter distance, quality from the pitch distance.
func intervalBetween(from, to theory.Note) (theory.Interval, bool) {
	num := (theory.LetterIndex(to.Letter)-theory.LetterIndex(from.Letter)+7)%7 + 1
	dist := (((to.Pitch() - from.Pitch()) % 12) + 12) % 12
	for _, q := range theory.QualsFor(num) {
		iv := theory.Interval{Num: num, Qual: q}
		if ((iv.Semis()%12)+12)%12 == dist {
			// representative nearest the major-scale size: the quality is unique within doubly altered range
			return iv, true
		}
	}
	return theory.Interval{}, false
}

func checkInterval(what string, from, to theory.Note, gotText string) *Violation {
	got, ok := theory.ReadNotation(gotText)
	if !ok || !got.Exists() {
		return vio("degree-unreadable", "%s: degree %q is not an interval", what, gotText)
	}
	wantNum := (theory.LetterIndex(to.Letter)-theory.LetterIndex(from.Letter)+7)%7 + 1
	if got.Num != wantNum {
		return vio("degree-number", "%s: %s above %s is a %d by letters, crd says %q", what, to, from, wantNum, gotText)
	}
	dist := (((to.Pitch() - from.Pitch()) % 12) + 12) % 12
	if ((got.Semis()%12)+12)%12 != dist {
		return vio("degree-size", "%s: %s lies %d semitones above %s, crd says %q = %d semitones", what, to, dist, from, gotText, got.Semis())
	}
	return nil
}

func checkC03(c C03Case) *Violation {
	key := theory.ParseKey(c.Key)
	root, _ := parseNoteName(c.Root)
	text := c.Root
	var bass *theory.Note
	if c.Bass != "" {
		b, _ := parseNoteName(c.Bass)
		bass = &b
		text += "/" + c.Bass
	}
	text += "[1]"
	what := fmt.Sprintf("%q in %s", text, c.Key)
	var degText, baseText string
	var hasBase, failed bool
	if c.CLI {
		res := crd(text+"\n", "text", "conv", "syllable", "--key", c.Key)
		if v := cleanOutcome(res); v != nil {
			v.Msg = what + ": " + v.Msg
			return v
		}
		if res.Exit != 0 {
			failed = true
		} else {
			var doc []map[string]any
			if err := yaml.Unmarshal(res.Stdout, &doc); err != nil || len(doc) != 1 {
				return vio("conv-output", "%s: cannot read output %q", what, clip(string(res.Stdout), 200))
			}
			ch, _ := doc[0]["chord"].(map[string]any)
			degText, _ = ch["degree"].(string)
			if b, ok := ch["base"]; ok {
				baseText, _ = b.(string)
				hasBase = true
			}
		}
	} else {
		v := safely(func() *Violation {
			tree, err, hang := implParse(text)
			if hang || err != nil || tree == nil || len(tree.List) != 1 {
				return vio("parse", "%s: does not parse (err %v, hang %v)", what, err, hang)
			}
			pk, err := op.ParseKey(c.Key)
			if err != nil {
				return vio("parsekey", "%v", err)
			}
			scale, err := op.NewScale(pk)
			if err != nil {
				return vio("scale", "%s: %v", c.Key, err)
			}
			inst, err := astconv.NewSyllableASTConverter(scale).Convert(tree.List[0])
			if err != nil {
				failed = true
				return nil
			}
			if inst == nil || inst.Chord == nil {
				return vio("conv-output", "%s: no chord and no error", what)
			}
			degText = inst.Chord.Degree.String()
			if inst.Chord.Base != nil {
				baseText = inst.Chord.Base.String()
				hasBase = true
			}
			return nil
		})
		if v != nil {
			return v
		}
	}
	// the seven scale notes are always accepted, as roots and as basses over one another
	inScale := func(n theory.Note) (int, bool) {
		for i, s := range key.Scale() {
			if s == n {
				return i, true
			}
		}
		return 0, false
	}
	ri, rootIn := inScale(root)
	bassIn := true
	if bass != nil {
		_, bassIn = inScale(*bass)
	}
	if failed {
		if rootIn && bassIn {
			return vio("scale-note-rejected", "%s: notes of the key's own scale are refused", what)
		}
		return nil // an error is allowed for notes the notation cannot express
	}
	if v := checkInterval(what+" root", key.Tonic(), root, degText); v != nil {
		return v
	}
	if rootIn {
		// own degrees: number = position, quality of the major / natural-minor scale
		want := []string{"1", "2", "3", "4", "5", "6", "7"}
		if key.Minor {
			want = []string{"1", "2", "b3", "4", "5", "b6", "b7"}
		}
		gotIv, ok1 := theory.ReadNotation(degText)
		wantIv, _ := theory.ReadNotation(want[ri])
		if !ok1 || gotIv != wantIv {
			return vio("scale-degree", "%s: scale note %d of %s converts to %q, the scale's own degree is %q", what, ri+1, c.Key, degText, want[ri])
		}
	}
	if (bass != nil) != hasBase {
		return vio("bass-presence", "%s: bass written=%v, base emitted=%v", what, bass != nil, hasBase)
	}
	if bass != nil {
		if v := checkInterval(what+" bass", root, *bass, baseText); v != nil {
			return v
		}
	}
	return nil
}

func init() { reg("c03", checkC03) }

func TestC03(t *testing.T) {
	r := rec("C03")
	defer r.Flush()
	replayCorpus(t, r, "C03")
	notes := theory.AllNotes21()
	i := 0
	cliStep := pick(11, 1)
	nfail := 0
	for _, k := range theory.ListedKeys {
		key := theory.ParseKey(k)
		for _, root := range notes {
			for bi := -1; bi < len(notes); bi++ {
				c := C03Case{Key: k, Root: root.String()}
				if bi >= 0 {
					c.Bass = notes[bi].String()
				}
				if myShare(i) {
					nt := !(root == key.Tonic() && bi < 0)
					r.CaseBC(nt, "library")
					if len(r.Samples) < 6 && i%1013 == shardIndex() {
						r.Samples = append(r.Samples, c)
					}
					r.Check(t, checkC03(c), "c03", c)
					if i%cliStep == 0 {
						cc := c
						cc.CLI = true
						r.CaseBC(nt, "through-cli")
						r.Check(t, checkC03(cc), "c03", cc)
					}
				}
				i++
			}
		}
	}
	_ = nfail
	msg := "28 keys x 21 roots x (no bass + 21 basses) = 12,936 chords via ast.Parse + NewSyllableASTConverter"
	if cliStep == 1 {
		msg += " and via `crd text conv syllable`"
	}
	r.MarkExhaustive(msg)
}
