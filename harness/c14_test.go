package harness

import (
	"fmt"
	"gopkg.in/yaml.v3"
	"sort"
	"strings"
	"testing"

	"github.com/berquerant/crd/op"
	"pgregory.net/rapid"
	"verifharness/theory"
)

// C14 - circle-of-fifths conversions obey their laws for every key and every chain.

type C14Case struct {
	Key   string `json:"key"`
	Chain string `json:"chain"`
	CLI   bool   `json:"cli,omitempty"`
}

var circle = op.NewCircleOfFifth()

func modelChain(key, chain string) []string {
	k := theory.ParseKey(key)
	pos, minor := k.CirclePos(), k.Minor
	for i := 0; i < len(chain); i++ {
		pos, minor = theory.ConvStep(pos, minor, chain[i])
	}
	r := theory.KeysAt(pos, minor)
	sort.Strings(r)
	return r
}

func convOf(c byte) op.KeyConversion {
	switch c {
	case 'p':
		return op.ParallelKey
	case 'r':
		return op.RelativeKey
	case 'd':
		return op.DominantKey
	case 's':
		return op.SubDominantKey
	}
	return op.UnknownKeyConversion
}

func libChain(key, chain string) ([]string, error) {
	k, err := op.ParseKey(key)
	if err != nil {
		return nil, err
	}
	cc := make(op.KeyConversionChain, len(chain))
	for i := 0; i < len(chain); i++ {
		cc[i] = convOf(chain[i])
	}
	m, err := cc.Convert(circle, k)
	if err != nil {
		return nil, err
	}
	var r []string
	for x := range m.Keys().All() {
		r = append(r, x.String())
	}
	sort.Strings(r)
	return r, nil
}

// checkC14Listed: whatever `info key list` calls a key is a key of the circle. From every listed key every single
// step works, and its result is the set of all listed spellings of the target (same pitch class, same mode).
func checkC14Listed() *Violation {
	res := crd("", "info", "key", "list")
	if v := cleanOutcome(res); v != nil {
		return v
	}
	var list []any
	if res.Exit != 0 || yaml.Unmarshal(res.Stdout, &list) != nil {
		return vio("list-failed", "info key list: exit %d %s", res.Exit, firstLines(res.Stderr, 2))
	}
	type pm struct {
		pc    int
		minor bool
	}
	by := map[pm][]string{}
	var keys []string
	for _, e := range list {
		o, ok := anyToScale(e)
		if !ok {
			return vio("list-output", "unreadable entry %v", e)
		}
		k := theory.ParseKey(o.Key)
		x := pm{((k.TonicOffset() % 12) + 12) % 12, k.Minor}
		by[x] = append(by[x], o.Key)
		keys = append(keys, o.Key)
	}
	for _, ks := range keys {
		k := theory.ParseKey(ks)
		pc := ((k.TonicOffset() % 12) + 12) % 12
		for _, step := range "dsrp" {
			t := pm{pc, k.Minor}
			switch step {
			case 'd':
				t.pc = (pc + 7) % 12
			case 's':
				t.pc = (pc + 5) % 12
			case 'p':
				t.minor = !k.Minor
			case 'r':
				t.minor = !k.Minor
				if k.Minor {
					t.pc = (pc + 3) % 12
				} else {
					t.pc = (pc + 9) % 12
				}
			}
			want := append([]string{}, by[t]...)
			sort.Strings(want)
			r := crd("", "info", "key", "conv", "--key", ks, "-c", string(step))
			if v := cleanOutcome(r); v != nil {
				return v
			}
			if r.Exit != 0 {
				return vio("chain-fails", "%s is in `info key list`, but crd info key conv --key %s -c %c fails: %s", ks, ks, step, firstLines(r.Stderr, 2))
			}
			got := strings.Fields(string(r.Stdout))
			sort.Strings(got)
			if strings.Join(got, " ") != strings.Join(want, " ") {
				return vio("chain-result", "crd info key conv --key %s -c %c prints %v; the listed keys on the target are %v", ks, step, got, want)
			}
		}
	}
	return nil
}

func checkC14(c C14Case) *Violation {
	if c.Chain == "@listed" {
		return checkC14Listed()
	}
	want := modelChain(c.Key, c.Chain)
	if c.CLI {
		res := crd("", "info", "key", "conv", "--key", c.Key, "-c", c.Chain)
		if c.Key == "C" && len(c.Chain)%2 == 1 {
			// C is the default key: leaving the flag out is the same question
			res = crd("", "info", "key", "conv", "-c", c.Chain)
		}
		switch (len(c.Key) + len(c.Chain)) % 5 {
		case 1: // the answer goes to an -o file
			res = Run{Argv: []string{"info", "key", "conv", "--key", c.Key, "-c", c.Chain, "-o", "@answer.txt"}, OutArg: "answer.txt"}.Exec()
			if res.Exit == 0 && len(res.Stdout) == 0 {
				res.Stdout = res.OutFile
			}
		case 2: // diagnostics are on
			res = crd("", "info", "key", "conv", "--key", c.Key, "-c", c.Chain, "--debug")
		}
		if v := cleanOutcome(res); v != nil {
			return v
		}
		if res.Exit != 0 {
			return vio("chain-fails", "crd info key conv --key %s -c %s fails: %s", c.Key, c.Chain, firstLines(res.Stderr, 2))
		}
		got := strings.Fields(string(res.Stdout))
		sort.Strings(got)
		if strings.Join(got, " ") != strings.Join(want, " ") {
			return vio("chain-result", "crd info key conv --key %s -c %s prints %v, the composition of the steps is %v", c.Key, c.Chain, got, want)
		}
		return nil
	}
	return safely(func() *Violation {
		for rep := 0; rep < 2; rep++ { // twice: intermediate spellings are picked in map order
			got, err := libChain(c.Key, c.Chain)
			if err != nil {
				return vio("chain-fails", "chain %q from %s fails: %v", c.Chain, c.Key, err)
			}
			if strings.Join(got, " ") != strings.Join(want, " ") {
				return vio("chain-result", "chain %q from %s gives %v, the composition of the steps is %v", c.Chain, c.Key, got, want)
			}
		}
		return nil
	})
}

func init() { reg("c14", checkC14) }

func crossesEnharmonic(key, chain string) bool {
	k := theory.ParseKey(key)
	pos, minor := k.CirclePos(), k.Minor
	for i := 0; i < len(chain); i++ {
		pos, minor = theory.ConvStep(pos, minor, chain[i])
		if len(theory.KeysAt(pos, minor)) > 1 {
			return true
		}
	}
	return false
}

func TestC14(t *testing.T) {
	r := rec("C14")
	defer r.Flush()
	replayCorpus(t, r, "C14")
	maxLen := pick(4, 6)
	i := 0
	var chains []string
	var gen func(s string)
	gen = func(s string) {
		if len(s) > 0 {
			chains = append(chains, s)
		}
		if len(s) == maxLen {
			return
		}
		for _, c := range "prds" {
			gen(s + string(c))
		}
	}
	gen("")
	if shardIndex() == 1 {
		c := C14Case{Chain: "@listed", CLI: true}
		r.CaseBC(true, "every-listed-key-x-single-step")
		r.Check(t, checkC14(c), "c14", c)
	}
	for _, k := range theory.ListedKeys {
		for _, ch := range chains {
			if myShare(i) {
				c := C14Case{Key: k, Chain: ch}
				cls := []string{"exhaustive-chain"}
				if crossesEnharmonic(k, ch) {
					cls = append(cls, "crosses-enharmonic-slot")
				}
				r.CaseBC(k != "C", cls...)
				if len(r.Samples) < 5 && i%977 == shardIndex() {
					r.Samples = append(r.Samples, map[string]any{"key": k, "chain": ch, "model": modelChain(k, ch)})
				}
				r.Check(t, checkC14(c), "c14", c)
			}
			i++
		}
	}
	r.MarkExhaustive(fmt.Sprintf("28 keys x all chains over {p,r,d,s} of length 1..%d (%d chains)", maxLen, 28*len(chains)))
	// laws stated on crd's own results (shard 0): inverses, involutions, twelve dominants
	if shardIndex() == 0 {
		for _, k := range theory.ListedKeys {
			for _, law := range []string{"ds", "sd", "rr", "pp", "dddddddddddd", "ssssssssssss"} {
				got, err := libChain(k, law)
				r.CaseBC(true, "law")
				if err != nil || !containsStr(got, k) {
					r.Check(t, vio("law", "%s from %s gives %v (err %v), expected to return to %s", law, k, got, err, k), "c14", C14Case{Key: k, Chain: law})
				}
			}
		}
	}
	// long random chains, library and CLI
	nCLI := 0
	rapid.Check(t, func(t *rapid.T) {
		k := rapid.SampledFrom(theory.ListedKeys).Draw(t, "key")
		ch := rapid.StringMatching(`[prds]{7,60}`).Draw(t, "chain")
		cli := coin(t, "cli", 15)
		if coin(t, "short-cli", 10) {
			cli = true
			ch = ch[:1+len(ch)%6]
		}
		c := C14Case{Key: k, Chain: ch, CLI: cli}
		cls := []string{"random-long-chain"}
		if cli {
			cls = append(cls, "through-cli")
			nCLI++
		}
		r.Case(k+"|"+ch+fmt.Sprint(cli), true, cls...)
		r.Check(t, checkC14(c), "c14", c)
	})
}

func containsStr(xs []string, x string) bool {
	for _, y := range xs {
		if y == x {
			return true
		}
	}
	return false
}
