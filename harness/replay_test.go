package harness

import (
	"fmt"
	"os"
	"path/filepath"
	"sort"
	"strings"
	"testing"
)

// replayCorpus re-runs the saved regression cases of a property
// (replays/<id>/regress/*.json): shrunk failures of earlier runs and the
// reproducers of repaired defects. They go through the same oracle.
func replayCorpus(t *testing.T, r *Rec, id string) {
	if shardIndex() != 0 {
		return
	}
	files, _ := filepath.Glob(filepath.Join(verifRoot(), "replays", id, "regress", "*.json"))
	sort.Strings(files)
	for _, f := range files {
		rf, v, err := runReplayFile(f)
		if err != nil {
			t.Fatalf("replay %s: %v", f, err)
		}
		r.Case("regress:"+filepath.Base(f), true, "regression-replays")
		if v != nil {
			if _, ok := isKnown(id, v.Sig); ok {
				r.mu.Lock()
				r.Known[v.Sig]++
				r.mu.Unlock()
				continue
			}
			r.mu.Lock()
			r.Violations++
			r.frozen = true
			r.FirstMsg = v.Msg
			r.ReplayPaths = append(r.ReplayPaths, f)
			r.mu.Unlock()
			r.Flush()
			t.Fatalf("VIOLATION %s sig=%s (regression case %s, kind %s): %s", id, v.Sig, f, rf.Kind, v.Msg)
		}
	}
}

// TestReplayFile: ./check Cxx --replay FILE
func TestReplayFile(t *testing.T) {
	path := os.Getenv("VERIF_REPLAY")
	if path == "" {
		t.Skip("no VERIF_REPLAY")
	}
	rf, v, err := runReplayFile(path)
	if err != nil {
		t.Fatalf("replay: %v", err)
	}
	if v == nil {
		fmt.Printf("REPLAY-OK property=%s kind=%s: the case passes on this tree\n", rf.Property, rf.Kind)
		return
	}
	if k, ok := isKnown(rf.Property, v.Sig); ok {
		fmt.Printf("KNOWN-FINDING: property=%s sig=%s %s\n", rf.Property, v.Sig, k.Text)
		return
	}
	fmt.Printf("REPLAY-VIOLATION property=%s sig=%s\n%s\n", rf.Property, v.Sig, v.Msg)
	t.Fail()
}

// TestKnownFindings replays the reproducer of every listed finding of
// VERIF_PROPERTY and prints KNOWN-FINDING lines for those that still fail.
func TestKnownFindings(t *testing.T) {
	id := os.Getenv("VERIF_PROPERTY")
	if id == "" {
		t.Skip("no VERIF_PROPERTY")
	}
	for _, k := range knownFindings {
		if k.Property != id {
			continue
		}
		path := ""
		for _, w := range strings.Fields(k.Text) {
			if strings.HasPrefix(w, "replay=") {
				path = w[len("replay="):]
			}
		}
		if path == "" {
			fmt.Printf("KNOWN-FINDING: property=%s sig=%s %s (no reproducer file)\n", id, k.Sig, k.Text)
			continue
		}
		if !filepath.IsAbs(path) {
			path = filepath.Join(verifRoot(), path)
		}
		_, v, err := runReplayFile(path)
		if err != nil {
			t.Fatalf("known finding %s: %v", k.Sig, err)
		}
		switch {
		case v == nil:
			fmt.Printf("KNOWN-FINDING-GONE: property=%s sig=%s no longer reproduces\n", id, k.Sig)
		case v.Sig == k.Sig:
			fmt.Printf("KNOWN-FINDING: property=%s sig=%s %s\n", id, k.Sig, k.Text)
		default:
			fmt.Printf("KNOWN-FINDING-CHANGED: property=%s listed sig=%s now fails as sig=%s: %s\n", id, k.Sig, v.Sig, v.Msg)
		}
	}
}
