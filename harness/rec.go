package harness

import (
	"bufio"
	"encoding/json"
	"fmt"
	"hash/fnv"
	"os"
	"path/filepath"
	"sort"
	"strconv"
	"strings"
	"sync"
)

// Violation is what an oracle returns: a stable signature (used to match
// known findings) and a human-readable message.
type Violation struct {
	Sig string `json:"sig"`
	Msg string `json:"msg"`
}

func vio(sig, f string, a ...any) *Violation {
	return &Violation{Sig: sig, Msg: fmt.Sprintf(f, a...)}
}

// fataler is what *rapid.T and *testing.T share.
type fataler interface {
	Fatalf(format string, args ...any)
}

type knownFinding struct {
	Property string
	Sig      string
	Text     string
}

var knownFindings = loadKnown()

func verifRoot() string {
	if v := os.Getenv("VERIF_ROOT"); v != "" {
		return v
	}
	return "/verif"
}

func loadKnown() []knownFinding {
	f, err := os.Open(filepath.Join(verifRoot(), "KNOWN_FINDINGS.txt"))
	if err != nil {
		return nil
	}
	defer f.Close()
	var r []knownFinding
	sc := bufio.NewScanner(f)
	for sc.Scan() {
		l := strings.TrimSpace(sc.Text())
		if !strings.HasPrefix(l, "known:") {
			continue
		}
		fs := strings.Fields(l[len("known:"):])
		var k knownFinding
		rest := []string{}
		for _, x := range fs {
			switch {
			case strings.HasPrefix(x, "property=") && k.Property == "":
				k.Property = x[len("property="):]
			case strings.HasPrefix(x, "sig=") && k.Sig == "":
				k.Sig = x[len("sig="):]
			default:
				rest = append(rest, x)
			}
		}
		k.Text = strings.Join(rest, " ")
		if k.Property != "" && k.Sig != "" {
			r = append(r, k)
		}
	}
	return r
}

func isKnown(property, sig string) (knownFinding, bool) {
	for _, k := range knownFindings {
		if k.Property == property && k.Sig == sig {
			return k, true
		}
	}
	return knownFinding{}, false
}

// Rec collects what one shard of one check covered.
type Rec struct {
	mu          sync.Mutex
	ID          string
	Evaluations int64
	hashes      map[uint64]struct{}
	DistinctBC  int64 // distinct non-trivial cases counted by construction (partitioned exhaustive enumerations)
	Classes     map[string]int64
	Excluded    map[string]int64
	Known       map[string]int64
	Samples     []any
	Violations  int
	ReplayPaths []string
	FirstMsg    string
	Exhaustive  []string // names of sub-spaces enumerated completely
	Notes       []string
	frozen      bool // set after the first violation: rapid is shrinking, stop counting
}

func NewRec(id string) *Rec {
	return &Rec{ID: id, hashes: map[uint64]struct{}{}, Classes: map[string]int64{}, Excluded: map[string]int64{}, Known: map[string]int64{}}
}

func h64(s string) uint64 {
	h := fnv.New64a()
	h.Write([]byte(s))
	return h.Sum64()
}

// Case counts one generated case. canon identifies it for distinctness.
func (r *Rec) Case(canon string, nontrivial bool, classes ...string) {
	r.mu.Lock()
	defer r.mu.Unlock()
	if r.frozen {
		return
	}
	r.Evaluations++
	if nontrivial {
		r.hashes[h64(canon)] = struct{}{}
		r.Classes["nontrivial"]++
	}
	for _, c := range classes {
		r.Classes[c]++
	}
}

// CaseBC counts a case of a partitioned exhaustive enumeration (distinct by construction).
func (r *Rec) CaseBC(nontrivial bool, classes ...string) {
	r.mu.Lock()
	defer r.mu.Unlock()
	r.Evaluations++
	if nontrivial {
		r.DistinctBC++
	}
	for _, c := range classes {
		r.Classes[c]++
	}
}

func (r *Rec) Class(c string, n int64) {
	r.mu.Lock()
	defer r.mu.Unlock()
	if r.frozen {
		return
	}
	r.Classes[c] += n
}

func (r *Rec) Exclude(what string) {
	r.mu.Lock()
	defer r.mu.Unlock()
	if r.frozen {
		return
	}
	r.Excluded[what]++
}

// Sample keeps up to max samples per tag, spread over the run.
func (r *Rec) Sample(v any) {
	r.mu.Lock()
	defer r.mu.Unlock()
	if r.frozen {
		return
	}
	n := r.Evaluations
	if len(r.Samples) < 4 || (len(r.Samples) < 10 && n%97 == 0) {
		r.Samples = append(r.Samples, v)
	}
}

func (r *Rec) Note(f string, a ...any) {
	r.mu.Lock()
	defer r.mu.Unlock()
	r.Notes = append(r.Notes, fmt.Sprintf(f, a...))
}

func (r *Rec) MarkExhaustive(name string) {
	r.mu.Lock()
	defer r.mu.Unlock()
	r.Exhaustive = append(r.Exhaustive, name)
}

type ReplayFile struct {
	Property string          `json:"property"`
	Kind     string          `json:"kind"`
	Sig      string          `json:"sig"`
	Msg      string          `json:"msg"`
	Case     json.RawMessage `json:"case"`
}

func replayDir(id string) string {
	if v := os.Getenv("VERIF_REPLAYS"); v != "" {
		return filepath.Join(v, id)
	}
	return filepath.Join(verifRoot(), "replays", id)
}

// Check handles an oracle verdict for a case. A nil verdict passes. A known
// finding is counted and passes, so that the search continues behind it. Any
// other violation writes a replay file (the last one written while rapid
// shrinks is the minimal one) and fails the test.
func (r *Rec) Check(t fataler, v *Violation, kind string, c any) {
	if v == nil {
		return
	}
	if _, ok := isKnown(r.ID, v.Sig); ok {
		r.mu.Lock()
		r.Known[v.Sig]++
		r.mu.Unlock()
		return
	}
	r.mu.Lock()
	first := !r.frozen
	r.frozen = true
	if first {
		r.Violations++
	}
	r.FirstMsg = v.Msg // the last failing call is the most shrunk one
	r.mu.Unlock()
	cb, err := json.Marshal(c)
	if err != nil {
		panic(err)
	}
	rf := ReplayFile{Property: r.ID, Kind: kind, Sig: v.Sig, Msg: v.Msg, Case: cb}
	b, _ := json.MarshalIndent(rf, "", " ")
	dir := replayDir(r.ID)
	_ = os.MkdirAll(dir, 0o755)
	// one file per shard and kind: shrinking overwrites it with smaller cases
	name := fmt.Sprintf("%s-%s-seed%s-shard%d.json", r.ID, kind, os.Getenv("VERIF_SEED_EFFECTIVE"), shardIndex())
	path := filepath.Join(dir, name)
	_ = os.WriteFile(path, b, 0o644)
	r.mu.Lock()
	if len(r.ReplayPaths) == 0 || r.ReplayPaths[len(r.ReplayPaths)-1] != path {
		r.ReplayPaths = append(r.ReplayPaths, path)
	}
	r.mu.Unlock()
	r.Flush()
	t.Fatalf("VIOLATION %s sig=%s: %s", r.ID, v.Sig, v.Msg)
}

func shardIndex() int {
	i, _ := strconv.Atoi(os.Getenv("VERIF_SHARD"))
	return i
}

func shardCount() int {
	n, _ := strconv.Atoi(os.Getenv("VERIF_NSHARDS"))
	if n < 1 {
		return 1
	}
	return n
}

func tier() string {
	if os.Getenv("VERIF_TIER") == "thorough" {
		return "thorough"
	}
	return "quick"
}

func thorough() bool { return tier() == "thorough" }

// pick returns q in the quick tier and th in the thorough tier.
func pick(q, th int) int {
	if thorough() {
		return th
	}
	return q
}

type shardOut struct {
	ID          string           `json:"id"`
	Shard       int              `json:"shard"`
	Evaluations int64            `json:"evaluations"`
	Hashes      []uint64         `json:"hashes"`
	DistinctBC  int64            `json:"distinct_bc"`
	Classes     map[string]int64 `json:"classes"`
	Excluded    map[string]int64 `json:"excluded"`
	Known       map[string]int64 `json:"known"`
	Samples     []any            `json:"samples"`
	Violations  int              `json:"violations"`
	ReplayPaths []string         `json:"replay_paths"`
	FirstMsg    string           `json:"first_msg"`
	Exhaustive  []string         `json:"exhaustive"`
	Notes       []string         `json:"notes"`
	Execs       int64            `json:"execs"`
}

// Flush writes the shard result for the driver to merge.
func (r *Rec) Flush() {
	r.mu.Lock()
	defer r.mu.Unlock()
	out := os.Getenv("VERIF_OUT")
	if out == "" {
		return
	}
	so := shardOut{ID: r.ID, Shard: shardIndex(), Evaluations: r.Evaluations, DistinctBC: r.DistinctBC, Classes: r.Classes,
		Excluded: r.Excluded, Known: r.Known, Samples: r.Samples, Violations: r.Violations, ReplayPaths: r.ReplayPaths,
		FirstMsg: r.FirstMsg, Exhaustive: r.Exhaustive, Notes: r.Notes, Execs: ExecCount.Load()}
	for h := range r.hashes {
		so.Hashes = append(so.Hashes, h)
	}
	sort.Slice(so.Hashes, func(i, j int) bool { return so.Hashes[i] < so.Hashes[j] })
	b, err := json.Marshal(so)
	if err != nil {
		panic(err)
	}
	_ = os.MkdirAll(out, 0o755)
	tmp := filepath.Join(out, fmt.Sprintf(".tmp-%s-%d", r.ID, shardIndex()))
	if err := os.WriteFile(tmp, b, 0o644); err != nil {
		panic(err)
	}
	if err := os.Rename(tmp, filepath.Join(out, fmt.Sprintf("shard-%s-%d.json", r.ID, shardIndex()))); err != nil {
		panic(err)
	}
}

// myShare reports whether item i of a partitioned enumeration belongs to this shard.
func myShare(i int) bool { return i%shardCount() == shardIndex() }

// ------------------------------------------------------------------ registry

var (
	recMu sync.Mutex
	recs  = map[string]*Rec{}
)

// rec returns the process-wide recorder of a property.
func rec(id string) *Rec {
	recMu.Lock()
	defer recMu.Unlock()
	if r, ok := recs[id]; ok {
		return r
	}
	r := NewRec(id)
	recs[id] = r
	return r
}

type replayer func(raw json.RawMessage) (*Violation, error)

var replayers = map[string]replayer{}

// reg registers the oracle of a case kind so that replay files can be re-run
// without rapid.
func reg[T any](kind string, f func(T) *Violation) {
	replayers[kind] = func(raw json.RawMessage) (*Violation, error) {
		var c T
		if err := json.Unmarshal(raw, &c); err != nil {
			return nil, err
		}
		return f(c), nil
	}
}

func runReplayFile(path string) (*ReplayFile, *Violation, error) {
	b, err := os.ReadFile(path)
	if err != nil {
		return nil, nil, err
	}
	var rf ReplayFile
	if err := json.Unmarshal(b, &rf); err != nil {
		return nil, nil, fmt.Errorf("%s: %v", path, err)
	}
	f, ok := replayers[rf.Kind]
	if !ok {
		return &rf, nil, fmt.Errorf("%s: unknown case kind %q", path, rf.Kind)
	}
	v, err := f(rf.Case)
	return &rf, v, err
}

// fuzzFail is Rec.Check for native fuzz targets: known findings pass, anything
// else is written as a replay file (name carries a hash of the case) and fails.
func fuzzFail(t fataler, id, kind string, c any, v *Violation) {
	if _, ok := isKnown(id, v.Sig); ok {
		return
	}
	cb, _ := json.Marshal(c)
	rf := ReplayFile{Property: id, Kind: kind, Sig: v.Sig, Msg: v.Msg, Case: cb}
	b, _ := json.MarshalIndent(rf, "", " ")
	dir := replayDir(id)
	_ = os.MkdirAll(dir, 0o755)
	path := filepath.Join(dir, fmt.Sprintf("%s-%s-fuzz-%016x.json", id, kind, h64(string(cb))))
	_ = os.WriteFile(path, b, 0o644)
	t.Fatalf("VIOLATION %s sig=%s replay=%s: %s", id, v.Sig, path, v.Msg)
}
