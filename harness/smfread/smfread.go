// Package smfread is a strict Standard MIDI File reader written from the
// file-format specification. It does not import gomidi or crd.
package smfread

import (
	"encoding/binary"
	"fmt"
)

type Ev struct {
	Tick   int64
	Status byte // 0x80..0xEF channel status (with channel), 0xFF meta, 0xF0/0xF7 sysex
	D1, D2 byte
	Meta   byte
	Data   []byte
	Idx    int
}

type Song struct {
	Format, NTrks, Division int
	Tracks                  [][]Ev
	Problems                []string
}

func (s *Song) prob(f string, a ...any) { s.Problems = append(s.Problems, fmt.Sprintf(f, a...)) }

func ReadSMF(b []byte) (*Song, error) {
	s := &Song{}
	if len(b) < 14 || string(b[:4]) != "MThd" {
		return nil, fmt.Errorf("no MThd")
	}
	hl := binary.BigEndian.Uint32(b[4:8])
	if hl != 6 {
		s.prob("header length %d", hl)
	}
	s.Format = int(binary.BigEndian.Uint16(b[8:10]))
	s.NTrks = int(binary.BigEndian.Uint16(b[10:12]))
	s.Division = int(binary.BigEndian.Uint16(b[12:14]))
	if s.Division&0x8000 != 0 || s.Division == 0 {
		s.prob("division %#x", s.Division)
	}
	if s.Format > 1 {
		s.prob("format %d", s.Format)
	}
	if (s.Format == 0) != (s.NTrks == 1) {
		s.prob("format %d with %d tracks", s.Format, s.NTrks)
	}
	p := 8 + int(hl)
	for p < len(b) {
		if p+8 > len(b) {
			s.prob("truncated chunk header at %d", p)
			break
		}
		typ := string(b[p : p+4])
		l := int(binary.BigEndian.Uint32(b[p+4 : p+8]))
		p += 8
		if p+l > len(b) {
			s.prob("chunk %s length %d exceeds file", typ, l)
			l = len(b) - p
		}
		if typ != "MTrk" {
			s.prob("alien chunk %q", typ)
			p += l
			continue
		}
		tr, err := readTrack(s, b[p:p+l], len(s.Tracks))
		if err != nil {
			s.prob("track %d: %v", len(s.Tracks), err)
		}
		s.Tracks = append(s.Tracks, tr)
		p += l
	}
	if len(s.Tracks) != s.NTrks {
		s.prob("header says %d tracks, found %d", s.NTrks, len(s.Tracks))
	}
	return s, nil
}

func readTrack(s *Song, b []byte, tn int) ([]Ev, error) {
	var evs []Ev
	var tick int64
	var running byte
	p := 0
	vlq := func() (int, error) {
		v := 0
		for i := 0; i < 4; i++ {
			if p >= len(b) {
				return 0, fmt.Errorf("truncated vlq")
			}
			c := b[p]
			p++
			v = v<<7 | int(c&0x7f)
			if c&0x80 == 0 {
				return v, nil
			}
		}
		return 0, fmt.Errorf("vlq longer than 4 bytes")
	}
	eot := -1
	for p < len(b) {
		d, err := vlq()
		if err != nil {
			return evs, err
		}
		tick += int64(d)
		if p >= len(b) {
			return evs, fmt.Errorf("truncated event")
		}
		st := b[p]
		ev := Ev{Tick: tick, Idx: len(evs)}
		if st < 0x80 {
			if running == 0 {
				return evs, fmt.Errorf("data byte %#x without running status at %d", st, p)
			}
			st = running
		} else {
			p++
		}
		switch {
		case st == 0xFF:
			running = 0
			if p >= len(b) {
				return evs, fmt.Errorf("truncated meta")
			}
			ev.Status = 0xFF
			ev.Meta = b[p]
			p++
			if ev.Meta >= 0x80 {
				s.prob("track %d meta type %#x", tn, ev.Meta)
			}
			l, err := vlq()
			if err != nil {
				return evs, err
			}
			if p+l > len(b) {
				return evs, fmt.Errorf("meta length overruns track")
			}
			ev.Data = append([]byte{}, b[p:p+l]...)
			p += l
			switch ev.Meta {
			case 0x2F:
				if l != 0 {
					s.prob("track %d EOT length %d", tn, l)
				}
				if eot >= 0 {
					s.prob("track %d second EOT", tn)
				}
				eot = len(evs)
			case 0x51:
				if l != 3 {
					s.prob("tempo length %d", l)
				}
			case 0x58:
				if l != 4 {
					s.prob("timesig length %d", l)
				}
			case 0x59:
				if l != 2 {
					s.prob("keysig length %d", l)
				} else if sf := int8(ev.Data[0]); sf < -7 || sf > 7 || ev.Data[1] > 1 {
					s.prob("keysig payload % x", ev.Data)
				}
			}
			if (ev.Meta == 0x51 || ev.Meta == 0x58 || ev.Meta == 0x59) && tn != 0 {
				s.prob("track %d has tempo/time/key meta %#x", tn, ev.Meta)
			}
		case st == 0xF0 || st == 0xF7:
			running = 0
			ev.Status = st
			l, err := vlq()
			if err != nil {
				return evs, err
			}
			if p+l > len(b) {
				return evs, fmt.Errorf("sysex overruns")
			}
			ev.Data = append([]byte{}, b[p:p+l]...)
			p += l
		case st >= 0x80 && st < 0xF0:
			running = st
			ev.Status = st
			n := 2
			if st&0xF0 == 0xC0 || st&0xF0 == 0xD0 {
				n = 1
			}
			if p+n > len(b) {
				return evs, fmt.Errorf("truncated channel message")
			}
			ev.D1 = b[p]
			if n == 2 {
				ev.D2 = b[p+1]
			}
			for i := 0; i < n; i++ {
				if b[p+i] >= 0x80 {
					s.prob("track %d data byte %#x >= 128", tn, b[p+i])
				}
			}
			p += n
		default:
			return evs, fmt.Errorf("status %#x not allowed in SMF", st)
		}
		evs = append(evs, ev)
	}
	if eot < 0 {
		s.prob("track %d has no EOT", tn)
	} else if eot != len(evs)-1 {
		s.prob("track %d EOT is not last", tn)
	}
	// note matching
	cnt := map[[2]byte]int{}
	for _, e := range evs {
		k := [2]byte{e.Status & 0x0F, e.D1}
		switch {
		case e.Status&0xF0 == 0x90 && e.D2 > 0:
			cnt[k]++
		case e.Status&0xF0 == 0x80 || (e.Status&0xF0 == 0x90 && e.D2 == 0):
			cnt[k]--
			if cnt[k] < 0 {
				s.prob("track %d note-off without note-on key %d", tn, e.D1)
				cnt[k] = 0
			}
		}
	}
	for k, v := range cnt {
		if v != 0 {
			s.prob("track %d hanging note key %d", tn, k[1])
		}
	}
	return evs, nil
}

// IsNoteOn / IsNoteOff classify channel-voice events (note-on with velocity
// 0 counts as off).
func (e Ev) IsNoteOn() bool     { return e.Status&0xF0 == 0x90 && e.D2 > 0 }
func (e Ev) IsNoteOff() bool    { return e.Status&0xF0 == 0x80 || (e.Status&0xF0 == 0x90 && e.D2 == 0) }
func (e Ev) IsMeta(t byte) bool { return e.Status == 0xFF && e.Meta == t }

// TotalSize re-derives the file size from the chunk lengths: 14 + sum(8+len).
func ChunkSizeSum(b []byte) (int, bool) {
	if len(b) < 14 {
		return 0, false
	}
	p := 8 + int(binary.BigEndian.Uint32(b[4:8]))
	for p < len(b) {
		if p+8 > len(b) {
			return p, false
		}
		p += 8 + int(binary.BigEndian.Uint32(b[p+4:p+8]))
	}
	return p, p == len(b)
}
