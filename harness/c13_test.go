package harness

import (
	"fmt"
	"sort"
	"strings"
	"testing"

	"github.com/berquerant/crd/op"
	"gopkg.in/yaml.v3"
	"verifharness/theory"
)

// C13 - every supported key has the right scale and the right key signature.

type C13Case struct {
	Key   string `json:"key"`
	Layer string `json:"layer"` // cli | lib | list
}

type scaleObs struct {
	Key         string
	Notes       []string
	Flat, Sharp int
}

func parseNoteName(s string) (theory.Note, bool) {
	if len(s) == 0 || !strings.ContainsRune(theory.Letters, rune(s[0])) {
		return theory.Note{}, false
	}
	n := theory.Note{Letter: s[0]}
	switch s[1:] {
	case "":
	case "#":
		n.Acc = 1
	case "b":
		n.Acc = -1
	default:
		return n, false
	}
	return n, true
}

// checkScale is the theory oracle for one reported scale.
func checkScale(k string, o scaleObs) *Violation {
	key := theory.ParseKey(k)
	if o.Key != k {
		return vio("scale-key", "asked for %s, scale says key %q", k, o.Key)
	}
	if len(o.Notes) != 7 {
		return vio("scale-len", "%s: %d notes %v", k, len(o.Notes), o.Notes)
	}
	var ns []theory.Note
	for _, s := range o.Notes {
		n, ok := parseNoteName(s)
		if !ok {
			return vio("scale-note", "%s: unreadable note %q", k, s)
		}
		ns = append(ns, n)
	}
	// letters: each once, from the tonic
	for i, n := range ns {
		want := theory.Letters[(theory.LetterIndex(key.Letter)+i)%7]
		if n.Letter != want {
			return vio("scale-letters", "%s: note %d is %s, letter %c expected (notes %v)", k, i, n, want, o.Notes)
		}
	}
	if ns[0] != key.Tonic() {
		return vio("scale-tonic", "%s: scale starts on %s", k, ns[0])
	}
	// step pattern
	steps := theory.MajorSteps
	if key.Minor {
		steps = theory.MinorSteps
	}
	for i := 0; i < 7; i++ {
		a, b := ns[i].Pitch(), ns[(i+1)%7].Pitch()
		d := ((b-a)%12 + 12) % 12
		if d != steps[i] {
			return vio("scale-steps", "%s: step %d (%s -> %s) is %d semitones, pattern says %d (notes %v)", k, i, ns[i], ns[(i+1)%7], d, steps[i], o.Notes)
		}
	}
	// signature
	sig := key.Sig()
	wantSharp, wantFlat := 0, 0
	if sig > 0 {
		wantSharp = sig
	} else {
		wantFlat = -sig
	}
	if o.Sharp != wantSharp || o.Flat != wantFlat {
		return vio("signature-count", "%s: reported sharp=%d flat=%d, conventional signature is sharp=%d flat=%d", k, o.Sharp, o.Flat, wantSharp, wantFlat)
	}
	// altered notes = first n of the order of sharps / flats
	altered := map[byte]int{}
	for _, n := range ns {
		if n.Acc != 0 {
			altered[n.Letter] = n.Acc
		}
	}
	want := map[byte]int{}
	for i := 0; i < wantSharp; i++ {
		want["FCGDAEB"[i]] = 1
	}
	for i := 0; i < wantFlat; i++ {
		want["BEADGCF"[i]] = -1
	}
	if fmt.Sprint(altered) != fmt.Sprint(want) {
		return vio("signature-notes", "%s: altered notes %v, conventional %v (notes %v)", k, showAcc(altered), showAcc(want), o.Notes)
	}
	return nil
}

func showAcc(m map[byte]int) []string {
	var r []string
	for l, a := range m {
		r = append(r, theory.Note{Letter: l, Acc: a}.String())
	}
	sort.Strings(r)
	return r
}

func anyToScale(v any) (scaleObs, bool) {
	m, ok := v.(map[string]any)
	if !ok {
		return scaleObs{}, false
	}
	var o scaleObs
	o.Key, _ = m["key"].(string)
	if ns, ok := m["notes"].([]any); ok {
		for _, n := range ns {
			s, _ := n.(string)
			o.Notes = append(o.Notes, s)
		}
	}
	o.Flat, _ = m["flat"].(int)
	o.Sharp, _ = m["sharp"].(int)
	return o, true
}

func describeKey(k string) (Result, *scaleObs, map[string]any) {
	res := crd("", "info", "key", "describe", "--key", k)
	if res.Exit != 0 || res.TimedOut || res.Crashed() {
		return res, nil, nil
	}
	var doc map[string]any
	if err := yaml.Unmarshal(res.Stdout, &doc); err != nil {
		return res, nil, nil
	}
	o, ok := anyToScale(doc["scale"])
	if !ok {
		return res, nil, doc
	}
	return res, &o, doc
}

func checkC13(c C13Case) *Violation {
	k := c.Key
	if c.Layer == "list" || c.Layer == "walk" || c.Layer == "textwalk" {
		k = "C"
	}
	key := theory.ParseKey(k)
	mustAccept := theory.IsListed(k)
	mustReject := key.Sig() > 7 || key.Sig() < -7
	switch c.Layer {
	case "cli":
		res, o, _ := describeKey(k)
		if v := cleanOutcome(res); v != nil {
			return v
		}
		if res.Exit != 0 {
			if mustAccept {
				return vio("listed-key-rejected", "`crd info key describe --key %s` fails: %s", k, firstLines(res.Stderr, 2))
			}
			return checkKeyWritten(k, key, mustAccept, mustReject)
		}
		if mustReject {
			return vio("impossible-key-accepted", "%s would need %d accidentals but is accepted", k, key.Sig())
		}
		if o == nil {
			return vio("describe-output", "cannot read the output of describe --key %s: %q", k, clip(string(res.Stdout), 300))
		}
		if v := checkScale(k, *o); v != nil {
			return v
		}
		// relative pair shares notes and signature
		rel := relativeOf(key)
		if r2, o2, _ := describeKey(rel.String()); r2.Exit == 0 && o2 != nil {
			a, b := append([]string{}, o.Notes...), append([]string{}, o2.Notes...)
			sort.Strings(a)
			sort.Strings(b)
			if strings.Join(a, ",") != strings.Join(b, ",") || o.Flat != o2.Flat || o.Sharp != o2.Sharp {
				return vio("relative-pair", "%s and its relative %s differ: %v (b%d #%d) vs %v (b%d #%d)", k, rel, o.Notes, o.Flat, o.Sharp, o2.Notes, o2.Flat, o2.Sharp)
			}
		} else if theory.IsListed(rel.String()) {
			return vio("listed-key-rejected", "relative key %s of %s is not described", rel, k)
		}
		// the same pair asked of crd itself: the relative `info key conv -c r` names has the notes and signature of k
		if theory.IsListed(k) {
			cr := crd("", "info", "key", "conv", "--key", k, "-c", "r")
			if v := cleanOutcome(cr); v != nil {
				return v
			}
			for _, rk := range strings.Fields(string(cr.Stdout)) {
				if !theory.IsListed(rk) {
					continue
				}
				if r3, o3, _ := describeKey(rk); r3.Exit == 0 && o3 != nil {
					a, b := append([]string{}, o.Notes...), append([]string{}, o3.Notes...)
					sort.Strings(a)
					sort.Strings(b)
					// two spellings of one key (F#/Gb) are two relatives: compare within the spelling that shares the signature
					if o.Flat == o3.Flat && o.Sharp == o3.Sharp && strings.Join(a, ",") == strings.Join(b, ",") {
						continue
					}
					if (o.Flat+o3.Sharp == 12 || o.Sharp+o3.Flat == 12) && o.Flat+o.Sharp > 0 {
						continue // the enharmonic spelling of the relative
					}
					return vio("relative-pair-by-conv", "`info key conv --key %s -c r` names %s, which does not share notes and signature with %s: %v (b%d #%d) vs %v (b%d #%d)", k, rk, k, o.Notes, o.Flat, o.Sharp, o3.Notes, o3.Flat, o3.Sharp)
				}
			}
		}
		if v := checkKeyWritten(k, key, mustAccept, mustReject); v != nil {
			return v
		}
	case "textwalk":
		// the same walk written as chord text: each chord carries {key=K} together with another setting
		keys := strings.Fields(c.Key)
		var tx strings.Builder
		for i, kk := range keys {
			other := []string{"mtr=3/4", "bpm=90", "vel=f", "mtr=4/4", "txt=x"}[i%5]
			if i%2 == 0 {
				tx.WriteString(fmt.Sprintf("1[1]{key=%s,%s} ", kk, other))
			} else {
				tx.WriteString(fmt.Sprintf("1[1]{%s,key=%s} ", other, kk))
			}
		}
		conv := crd(tx.String(), "text", "conv", "degree")
		if v := cleanOutcome(conv); v != nil {
			return v
		}
		if conv.Exit != 0 {
			return vio("listed-key-not-written", "`crd text conv degree` refuses %q: %s", tx.String(), firstLines(conv.Stderr, 2))
		}
		wr := Run{Argv: []string{"write"}, Stdin: string(conv.Stdout)}.Exec()
		if v := cleanOutcome(wr); v != nil {
			return v
		}
		if wr.Exit != 0 {
			return vio("listed-key-not-written", "`crd write` refuses the conversion of %q: %s", tx.String(), firstLines(wr.Stderr, 2))
		}
		_, song, err := decode(wr.Stdout)
		if err != nil || len(song.Tracks) == 0 {
			return vio("not-smf", "text walk through %v: %v", keys, err)
		}
		var got, want []string
		for _, e := range song.Tracks[0] {
			if e.IsMeta(0x59) && len(e.Data) == 2 {
				got = append(got, fmt.Sprintf("%d:sf=%d,mi=%d", e.Tick/960, int8(e.Data[0]), e.Data[1]))
			}
		}
		for i, kk := range keys {
			tk := theory.ParseKey(kk)
			mi := 0
			if tk.Minor {
				mi = 1
			}
			want = append(want, fmt.Sprintf("%d:sf=%d,mi=%d", i, tk.Sig(), mi))
		}
		if strings.Join(got, " ") != strings.Join(want, " ") {
			return vio("written-signature", "the text %q states the signatures (beat:sf,mi)\n%v\nthe keys have\n%v", tx.String(), got, want)
		}
	case "walk":
		// one piece that visits the keys in the order given (c.Key holds them, blank-separated): every visit states its
		// own signature where it begins - also right after an enharmonic twin or a relative key
		keys := strings.Fields(c.Key)
		var doc strings.Builder
		for _, kk := range keys {
			doc.WriteString(fmt.Sprintf("- values: [\"1\"]\n  chord: {degree: \"1\", name: \"\"}\n  key: %s\n", yq(kk)))
		}
		wr := Run{Argv: []string{"write"}, Stdin: doc.String()}.Exec()
		if v := cleanOutcome(wr); v != nil {
			return v
		}
		if wr.Exit != 0 {
			return vio("listed-key-not-written", "`crd write` refuses a piece that walks through %v: %s", keys, firstLines(wr.Stderr, 2))
		}
		_, song, err := decode(wr.Stdout)
		if err != nil || len(song.Tracks) == 0 {
			return vio("not-smf", "walk through %v: %v", keys, err)
		}
		var got []string
		for _, e := range song.Tracks[0] {
			if e.IsMeta(0x59) && len(e.Data) == 2 {
				got = append(got, fmt.Sprintf("%d:sf=%d,mi=%d", e.Tick/960, int8(e.Data[0]), e.Data[1]))
			}
		}
		var want []string
		for i, kk := range keys {
			tk := theory.ParseKey(kk)
			mi := 0
			if tk.Minor {
				mi = 1
			}
			want = append(want, fmt.Sprintf("%d:sf=%d,mi=%d", i, tk.Sig(), mi))
		}
		if strings.Join(got, " ") != strings.Join(want, " ") {
			return vio("written-signature", "a piece walking through %v states the signatures (beat:sf,mi)\n%v\nthe keys have\n%v", keys, got, want)
		}
	case "lib":
		pk, err := op.ParseKey(k)
		if err != nil {
			return vio("parsekey", "op.ParseKey(%q): %v", k, err)
		}
		if pk.String() != k {
			return vio("key-print", "op.ParseKey(%q).String() = %q", k, pk.String())
		}
		sc, err := op.NewScale(pk)
		if err != nil {
			if mustAccept {
				return vio("listed-key-rejected", "op.NewScale(%s): %v", k, err)
			}
			return nil
		}
		if mustReject {
			return vio("impossible-key-accepted", "op.NewScale accepts %s (%d accidentals)", k, key.Sig())
		}
		o := scaleObs{Key: sc.Key.String(), Flat: sc.Flat, Sharp: sc.Sharp}
		for _, n := range sc.Notes {
			o.Notes = append(o.Notes, n.String())
		}
		return checkScale(k, o)
	case "list":
		res := crd("", "info", "key", "list")
		if v := cleanOutcome(res); v != nil {
			return v
		}
		if res.Exit != 0 {
			return vio("list-failed", "info key list: %s", res.Stderr)
		}
		var list []any
		if err := yaml.Unmarshal(res.Stdout, &list); err != nil {
			return vio("list-output", "info key list is not a YAML list: %v", err)
		}
		seen := map[string]scaleObs{}
		for _, e := range list {
			o, ok := anyToScale(e)
			if !ok {
				return vio("list-output", "unreadable entry %v", e)
			}
			if _, dup := seen[o.Key]; dup {
				return vio("list-duplicate", "key %s listed twice", o.Key)
			}
			seen[o.Key] = o
		}
		for _, s := range theory.AllSpellings42() {
			r, o, _ := describeKey(s)
			lo, inList := seen[s]
			if (r.Exit == 0) != inList {
				return vio("list-vs-describe", "%s: described=%v listed=%v", s, r.Exit == 0, inList)
			}
			if inList && (o == nil || fmt.Sprint(*o) != fmt.Sprint(lo)) {
				return vio("list-vs-describe", "%s: list entry %v differs from describe %v", s, lo, o)
			}
			delete(seen, s)
		}
		if len(seen) != 0 {
			return vio("list-extra", "info key list has entries that are not key spellings: %v", seen)
		}
	}
	return nil
}

func relativeOf(k theory.Key) theory.Key {
	// relative minor: a minor third below (letter -2); relative major: a minor third above (letter +2)
	want := k.Sig()
	for _, s := range theory.AllSpellings42() {
		r := theory.ParseKey(s)
		if r.Minor != k.Minor && r.Sig() == want {
			return r
		}
	}
	return k
}

func init() { reg("c13", checkC13) }

func TestC13(t *testing.T) {
	r := rec("C13")
	defer r.Flush()
	replayCorpus(t, r, "C13")
	i := 0
	for _, layer := range []string{"cli", "lib"} {
		for _, k := range theory.AllSpellings42() {
			if myShare(i) {
				c := C13Case{Key: k, Layer: layer}
				r.CaseBC(k != "C" && k != "Am", "layer:"+layer, map[bool]string{true: "listed-key", false: "unlisted-spelling"}[theory.IsListed(k)])
				if len(r.Samples) < 6 {
					r.Samples = append(r.Samples, c)
				}
				r.Check(t, checkC13(c), "c13", c)
			}
			i++
		}
	}
	walks := []string{
		"C G D A E B Cb F# Gb C# Db Ab Eb Bb F C",                 // the major circle, enharmonic twins side by side
		"Am Em Bm F#m C#m G#m D#m Ebm Bbm Fm Cm Gm Dm Am",         // the minor circle
		"C Am G Em D Bm A F#m E C#m B G#m F# D#m Gb Ebm Db Bbm Ab Fm Eb Cm Bb Gm F Dm C# Cb", // relatives side by side
		"Db C# Db F# Gb F# Ebm D#m Ebm Cb B Cb",                 // twins back and forth
	}
	for wi, w := range walks {
		if myShare(wi + 3) {
			c := C13Case{Key: w, Layer: "walk"}
			r.CaseBC(true, "layer:walk")
			r.Check(t, checkC13(c), "c13", c)
		}
		if myShare(wi+9) && wi < 2 {
			c := C13Case{Key: w, Layer: "textwalk"}
			r.CaseBC(true, "layer:textwalk")
			r.Check(t, checkC13(c), "c13", c)
		}
	}
	if shardIndex() == 0 {
		c := C13Case{Layer: "list"}
		r.CaseBC(true, "layer:list")
		r.Check(t, checkC13(c), "c13", c)
	}
	r.MarkExhaustive("42 spellings [A-G][#b]?m? x {info key describe, op.NewScale}; info key list")
}

// checkKeyWritten: the same key on the way into a file. `crd write --key K` states the key's signature (sf = sharps,
// or minus flats; mi = mode) for a supported key and refuses a spelling that would need more than seven accidentals.
func checkKeyWritten(k string, key theory.Key, mustAccept, mustReject bool) *Violation {
	if v := checkKeyWrittenOn(k, key, mustAccept, mustReject, oneChordDoc("")); v != nil {
		return v
	}
	// the same with a pickup: the piece opens with a rest
	if v := checkKeyWrittenOn(k, key, mustAccept, mustReject, "- values: [\"1/2\"]\n"+oneChordDoc("")); v != nil {
		return v
	}
	// the key arrives on the closing rest of the piece (no flag): stated there, or refused if it has no scale
	wr := Run{Argv: []string{"write"}, Stdin: oneChordDoc("") + "- values: [\"1\"]\n  key: " + yq(k) + "\n"}.Exec()
	if v := cleanOutcome(wr); v != nil {
		return v
	}
	if wr.Exit != 0 {
		if mustAccept {
			return vio("listed-key-not-written", "`crd write` refuses a piece whose closing rest carries key %s: %s", k, firstLines(wr.Stderr, 2))
		}
		return nil
	}
	if mustReject {
		return vio("impossible-key-written", "`crd write` accepts key %s (%d accidentals) on the closing rest of a piece", k, key.Sig())
	}
	_, song, err := decode(wr.Stdout)
	if err != nil || len(song.Tracks) == 0 {
		return vio("not-smf", "closing rest with key %s: %v", k, err)
	}
	mi := 0
	if key.Minor {
		mi = 1
	}
	last := ""
	for _, e := range song.Tracks[0] {
		if e.IsMeta(0x59) && len(e.Data) == 2 {
			last = fmt.Sprintf("tick %d sf=%d mi=%d", e.Tick, int8(e.Data[0]), e.Data[1])
		}
	}
	if want := fmt.Sprintf("tick 960 sf=%d mi=%d", key.Sig(), mi); last != want && !(k == "C" && last == "tick 0 sf=0 mi=0") {
		return vio("written-signature", "a piece whose closing rest carries key %s: the last key signature is %q, expected %q", k, last, want)
	}
	return nil
}

func checkKeyWrittenOn(k string, key theory.Key, mustAccept, mustReject bool, doc string) *Violation {
	wr := Run{Argv: []string{"write", "--key", k}, Stdin: doc}.Exec()
	if v := cleanOutcome(wr); v != nil {
		return v
	}
	if wr.Exit != 0 {
		if mustAccept {
			return vio("listed-key-not-written", "`crd write --key %s` fails: %s", k, firstLines(wr.Stderr, 2))
		}
		return nil
	}
	if mustReject {
		return vio("impossible-key-written", "`crd write --key %s` succeeds although %s would need %d accidentals", k, k, key.Sig())
	}
	_, song, err := decode(wr.Stdout)
	if err != nil || len(song.Tracks) == 0 {
		return vio("not-smf", "crd write --key %s: %v", k, err)
	}
	mi := 0
	if key.Minor {
		mi = 1
	}
	n := 0
	for _, e := range song.Tracks[0] {
		if e.IsMeta(0x59) && len(e.Data) == 2 {
			n++
			if int(int8(e.Data[0])) != key.Sig() || int(e.Data[1]) != mi {
				return vio("written-signature", "`crd write --key %s` states sf=%d mi=%d, the key has sf=%d mi=%d", k, int8(e.Data[0]), e.Data[1], key.Sig(), mi)
			}
		}
	}
	if n != 1 {
		return vio("written-signature", "`crd write --key %s` states %d key signatures", k, n)
	}
	return nil
}
