package harness

import (
	"fmt"
	"strings"
	"testing"

	"pgregory.net/rapid"
	"verifharness/smfread"
)

// C08 - every file written is a well-formed Standard MIDI File.

type C08Case struct {
	Doc     Doc    `json:"doc"`
	UseFile bool   `json:"use_file"`        // read the -o file instead of stdout
	Stale   bool   `json:"stale,omitempty"` // the -o path already exists and is longer than the new result
	Empty   string `json:"empty,omitempty"` // instead of the document: an instances file without instances ("", "[]", a comment); a refusal or a well-formed file
	Debug   bool   `json:"debug,omitempty"` // --debug: diagnostics go to stderr, what is written is still the file
	Huge    bool   `json:"huge,omitempty"`  // contains a duration near or beyond what a MIDI delta time can hold: refusing it is fine
}

func strictSMF(b []byte, wantTracks int) (sig, msg string) {
	song, err := smfread.ReadSMF(b)
	if err != nil {
		return "not-smf", err.Error()
	}
	if len(song.Problems) > 0 {
		p := song.Problems[0]
		sig := "smf-problem"
		switch {
		case strings.Contains(p, "vlq"):
			sig = "vlq"
		case strings.Contains(p, "EOT"):
			sig = "eot"
		case strings.Contains(p, "hanging") || strings.Contains(p, "note-off without"):
			sig = "unmatched-note"
		case strings.Contains(p, "tempo/time/key"):
			sig = "meta-outside-first-track"
		case strings.Contains(p, "data byte"):
			sig = "data-byte"
		case strings.Contains(p, "format"):
			sig = "format"
		}
		return sig, strings.Join(song.Problems, "; ")
	}
	if song.NTrks != wantTracks {
		return "track-count", fmt.Sprintf("header declares %d tracks, --track was %d", song.NTrks, wantTracks)
	}
	if n, ok := smfread.ChunkSizeSum(b); !ok {
		return "chunk-sizes", fmt.Sprintf("chunk lengths add up to %d, file has %d bytes", n, len(b))
	}
	return "", ""
}

func checkC08(c C08Case) *Violation {
	d := c.Doc
	ctx := fmt.Sprintf("\nargs=%v\n%s", d.Flags.Argv(), d.YAML())
	argv := append([]string{"write"}, d.Flags.Argv()...)
	run := Run{Argv: argv, Stdin: d.YAML()}
	if c.Empty != "" {
		run.Stdin = strings.TrimPrefix(c.Empty, "=")
		ctx = fmt.Sprintf("\nargs=%v\n(document: %q)", d.Flags.Argv(), run.Stdin)
	}
	if c.Debug {
		run.Argv = append(run.Argv, "--debug")
	}
	if c.UseFile {
		run.Argv = append(run.Argv, "-o", "@out.mid")
		run.OutArg = "out.mid"
		if c.Stale {
			// the path already holds a longer file written earlier
			run.Files = map[string]string{"out.mid": staleContent}
		}
	}
	res := run.Exec()
	if res.TimedOut || res.Crashed() {
		return vio("write-crashed", "timeout=%v stderr=%s%s", res.TimedOut, res.Stderr, ctx)
	}
	if d.Flags.Track > 0xFFFF {
		// the header counts tracks in 16 bits: a file with more chunks than it can declare is not an SMF, so only a refusal is left
		if res.Exit == 0 {
			return vio("track-count-beyond-header", "--track %d: exit 0 with %d bytes, but a header cannot declare more than 65535 tracks%s", d.Flags.Track, len(res.Stdout)+len(res.OutFile), clip(ctx, 600))
		}
		return nil
	}
	if res.Exit != 0 && c.Empty != "" {
		return nil // nothing to write: refusing is fine, an exit 0 has to come with a well-formed file
	}
	if res.Exit != 0 && beyondDelta(d) {
		return nil // C08 speaks about successful writes only, and an SMF cannot hold such a duration
	}
	if res.Exit != 0 {
		// refusals of ordinary documents would leave the check vacuous
		return vio("write-refused", "exit %d for a document inside the accepted domain: %s%s", res.Exit, res.Stderr, ctx)
	}
	b := res.Stdout
	if c.UseFile {
		if !res.HasOut {
			return vio("no-file", "-o file was not created%s", ctx)
		}
		if len(res.Stdout) != 0 {
			return vio("stdout-with-o", "%d bytes on stdout although -o was given%s", len(res.Stdout), ctx)
		}
		b = res.OutFile
	}
	if sig, msg := strictSMF(b, d.Flags.Track); sig != "" {
		return vio(sig, "%s%s", msg, ctx)
	}
	return nil
}

func c08Opts() DocOpts {
	return DocOpts{MaxInsts: pick(10, 40), MaxIvNum: 64, Settings: 15, Meta: 20, RestPct: 30, FlagsPct: 30, MultiTrack: true, MaxTrack: 40, Suffix: true}
}

var genInstrument = rapid.OneOf(
	rapid.SampledFrom([]string{"", "Piano", "x", "é日本", strings.Repeat("n", 127), strings.Repeat("n", 128), strings.Repeat("長", 100), "a\nb", "\x01"}),
	rapid.StringN(0, 300, -1),
)

func init() { reg("c08", checkC08) }

func TestC08(t *testing.T) {
	r := rec("C08")
	defer r.Flush()
	replayCorpus(t, r, "C08")
	o := c08Opts()
	rapid.Check(t, func(t *rapid.T) {
		d := genDoc(o).Draw(t, "doc")
		d.Flags.Instrument = opt(t, "instrument", 40, genInstrument)
		if d.Flags.Instrument != nil {
			// a NUL byte cannot be passed in argv at all
			x := strings.ReplaceAll(*d.Flags.Instrument, "\x00", "\x02")
			d.Flags.Instrument = &x
		}
		d.Flags.Program = opt(t, "program", 40, rapid.IntRange(0, 255))
		if coin(t, "zero-tick-chord", 20) {
			j := rapid.IntRange(0, len(d.Insts)-1).Draw(t, "zt-at")
			d.Insts[j].Values = []Frac{{1, 1921}}
		}
		huge := false
		if coin(t, "huge-duration", 12) {
			// durations near and beyond the largest delta time an SMF can hold (2^28-1 ticks = 279,620 beats)
			j := rapid.IntRange(0, len(d.Insts)-1).Draw(t, "huge-at")
			n := rapid.SampledFrom([]int{200000, 279619, 279620, 279621, 300000, 559241, 4473924, 4473925, 5000000, 1 << 40}).Draw(t, "huge-n")
			d.Insts[j].Values = []Frac{{n, rapid.SampledFrom([]int{1, 1, 2, 3}).Draw(t, "huge-d")}}
			if coin(t, "exact-boundary", 35) {
				// exactly the largest delta an SMF can hold (2^28-1 ticks), one more, and two more
				d.Insts[j].Values = [][]Frac{{{268435455, 960}}, {{268435456, 960}}, {{4194304, 15}}, {{279620, 1}, {4, 15}}, {{268435457, 960}}, {{279620, 1}, {255, 960}}}[rapid.IntRange(0, 5).Draw(t, "boundary")]
			}
			if coin(t, "two-huge-rests", 30) {
				d.Insts = append(d.Insts, Inst{Values: []Frac{{150000, 1}}}, Inst{Values: []Frac{{150000, 1}}}, Inst{Chord: &ChordSpec{Deg: IV{1, 2}, Sym: "m"}, Values: []Frac{{1, 1}}})
			}
			huge = true
		}
		if len(d.Insts) <= 6 && coin(t, "track-count-at-the-header-limit", 2) {
			d.Flags.Track = rapid.SampledFrom([]int{65535, 65536, 65537, 100000, 131072}).Draw(t, "many-tracks")
			r.Class("track-count-around-65535", 1)
		}
		c := C08Case{Doc: d, UseFile: coin(t, "use-file", 30), Huge: huge, Debug: len(d.Insts) <= 40 && coin(t, "debug", 10)}
		c.Stale = c.UseFile && rapid.Bool().Draw(t, "stale-output-file")
		if coin(t, "document-without-instances", 2) {
			c.Empty = rapid.SampledFrom([]string{"=", "=[]\n", "=\n", "=# nothing yet\n", "=--- []\n", "=null\n"}).Draw(t, "empty-doc")
			c.Huge = false
		}
		nt := d.Flags.Track >= 2 || d.Flags.Instrument != nil || d.Flags.Program != nil
		var classes []string
		for _, in := range d.Insts {
			if in.Chord != nil {
				if lo, _ := ticksOf(in.Values, 960); lo == 0 {
					nt = true
					classes = append(classes, "zero-tick-chord")
				}
				if in.Chord.Deg.Num > 30 {
					nt = true
					classes = append(classes, "pitch-outside-midi-range")
				}
			}
		}
		if d.Flags.Track >= 2 {
			classes = append(classes, "multi-track")
		}
		if c.UseFile {
			classes = append(classes, "read-from-o-file")
		}
		if c.Stale {
			classes = append(classes, "o-file-overwrites-longer-file")
		}
		if c.Debug {
			classes = append(classes, "with---debug")
		}
		if c.Empty != "" {
			classes = append(classes, "document-without-instances")
		}
		if c.Huge {
			nt = true
			classes = append(classes, "duration-near-or-beyond-2^28-ticks")
		}
		if d.Flags.Program != nil && *d.Flags.Program > 127 {
			classes = append(classes, "program>127")
		}
		r.Case(d.YAML()+fmt.Sprint(d.Flags.Argv(), c.UseFile, c.Stale, c.Debug, c.Empty), nt, dedup(classes)...)
		r.Sample(map[string]any{"args": d.Flags.Argv(), "yaml": d.YAML(), "use_file": c.UseFile})
		r.Check(t, checkC08(c), "c08", c)
	})
}
