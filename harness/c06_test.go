package harness

import (
	"fmt"
	"sort"
	"strings"
	"testing"

	"pgregory.net/rapid"
	"verifharness/smfread"
)

// C06 - track count never changes the music; every track ends when the piece ends.

type C06Case struct {
	Doc       Doc   `json:"doc"`
	Tracks    []int `json:"tracks"`
	MayRefuse bool  `json:"may_refuse,omitempty"` // generated with very long silences (statistics only): refusing is fine exactly when the piece is longer than a MIDI delta time can hold (beyondDelta), writing it with a wrong length never is
}

func rawEvents(song *smfread.Song) (evs []string, eots []int64) {
	for _, tr := range song.Tracks {
		for _, e := range tr {
			if e.IsMeta(0x2F) {
				eots = append(eots, e.Tick)
				continue
			}
			evs = append(evs, fmt.Sprintf("%09d %02x %02x %02x %02x %x", e.Tick, e.Status, e.D1, e.D2, e.Meta, e.Data))
		}
	}
	sort.Strings(evs)
	return
}

func checkC06(c C06Case) *Violation {
	d := c.Doc
	d.Flags.Track = 1
	ctx := fmt.Sprintf("\nargs=%v\n%s", d.Flags.Argv(), d.YAML())
	res0, ref, err := writeDoc(d)
	if err != nil {
		if beyondDelta(d) && res0.Exit != 0 && !res0.TimedOut && !res0.Crashed() {
			return nil
		}
		return vio("write-failed", "%v%s", err, ctx)
	}
	refEvs, refEots := rawEvents(ref)
	// exact total from the rational model, narrowed by the observed notes
	spans, prob := pairNotes(ref)
	if prob != "" {
		return vio("pairing", "%s%s", prob, ctx)
	}
	ms := d.Model(ref.Division)
	_, totals, v := timeline(d, ms, spans)
	if v != nil {
		// timing itself is C02's property; C06 needs the total only
		return vio("timing-"+v.Sig, "%s%s", v.Msg, ctx)
	}
	checkEots := func(n int, eots []int64) *Violation {
		if len(eots) != n {
			return vio("eot-count", "--track %d: %d end-of-track events%s", n, len(eots), ctx)
		}
		for ti, e := range eots {
			if !totals[e] {
				sig := "eot-multi"
				if n == 1 {
					sig = "eot-single"
				}
				trailing := d.Insts[len(d.Insts)-1].Chord == nil
				return vio(sig, "--track %d: track %d ends at tick %d, the piece lasts %v ticks (all tracks: %v; trailing rest: %v)%s", n, ti, e, keys64(totals), eots, trailing, ctx)
			}
		}
		return nil
	}
	if v := checkEots(1, refEots); v != nil {
		return v
	}
	for _, n := range c.Tracks {
		dn := d
		dn.Flags.Track = n
		resn, song, err := writeDoc(dn)
		if err != nil {
			if beyondDelta(d) && resn.Exit != 0 && !resn.TimedOut && !resn.Crashed() {
				continue // with more tracks the idle time of a track can exceed the limit although --track 1 fits
			}
			return vio("write-failed", "--track %d: %v%s", n, err, ctx)
		}
		if len(song.Tracks) != n {
			return vio("track-count", "--track %d gives %d tracks%s", n, len(song.Tracks), ctx)
		}
		evs, eots := rawEvents(song)
		if strings.Join(evs, "\n") != strings.Join(refEvs, "\n") {
			return vio("merged-events", "--track %d: merged events differ from --track 1\n%s%s", n, diffLines(refEvs, evs), ctx)
		}
		if v := checkEots(n, eots); v != nil {
			return v
		}
	}
	return nil
}

func diffLines(a, b []string) string {
	ma := map[string]int{}
	for _, x := range a {
		ma[x]++
	}
	for _, x := range b {
		ma[x]--
	}
	var only1, onlyN []string
	for k, v := range ma {
		for ; v > 0; v-- {
			only1 = append(only1, k)
		}
		for ; v < 0; v++ {
			onlyN = append(onlyN, k)
		}
	}
	sort.Strings(only1)
	sort.Strings(onlyN)
	if len(only1) > 8 {
		only1 = only1[:8]
	}
	if len(onlyN) > 8 {
		onlyN = onlyN[:8]
	}
	return fmt.Sprintf("only with --track 1: %v\nonly with --track N: %v", only1, onlyN)
}

func c06Opts() DocOpts {
	return DocOpts{MaxInsts: pick(8, 30), MaxIvNum: 9, Settings: 20, Meta: 25, RestPct: 35, FlagsPct: 30}
}

func init() { reg("c06", checkC06) }

func TestC06(t *testing.T) {
	r := rec("C06")
	defer r.Flush()
	replayCorpus(t, r, "C06")
	o := c06Opts()
	nTracks := pick(4, 8)
	rapid.Check(t, func(t *rapid.T) {
		d := genDoc(o).Draw(t, "doc")
		ensureAudible(&d)
		if coin(t, "sub-tick-chord", 8) {
			// a chord of 0 ticks (shorter than half a tick) must not stretch the tracks it lands on
			for n := rapid.IntRange(1, 2).Draw(t, "nsub"); n > 0; n-- {
				j := rapid.IntRange(0, len(d.Insts)-1).Draw(t, "sub-at")
				if d.Insts[j].Chord != nil {
					d.Insts[j].Values = rapid.SampledFrom([][]Frac{{{1, 1921}}, {{1, 2048}}, {{3, 7000}}, {{1, 5000}, {1, 5000}}}).Draw(t, "sub-values")
				}
			}
		}
		if coin(t, "trailing-rest", 40) {
			d.Insts = append(d.Insts, Inst{Values: genValues(2).Draw(t, "trail")})
		}
		tracks := []int{2}
		for len(tracks) < nTracks {
			n := rapid.OneOf(rapid.SampledFrom([]int{3, 4, 5, 6, 7}), rapid.IntRange(2, 32)).Draw(t, "n")
			tracks = append(tracks, n)
		}
		mayRefuse := false
		if coin(t, "very-long-silence", 6) {
			// consecutive rests, each below 2^32 ticks, together beyond it; and silences around 2^28 ticks
			k := rapid.IntRange(0, len(d.Insts)).Draw(t, "silence-at")
			rests := [][]Inst{
				{{Values: []Frac{{4000000, 1}}}, {Values: []Frac{{473925, 1}}}},
				{{Values: []Frac{{2236963, 1}}}, {Values: []Frac{{2236963, 1}}}},
				{{Values: []Frac{{139810, 1}}}, {Values: []Frac{{139810, 1}}}},
				{{Values: []Frac{{200000, 1}}}, {Values: []Frac{{100000, 1}}}, {Values: []Frac{{4194304, 1}}}},
			}[rapid.IntRange(0, 3).Draw(t, "silence-kind")]
			d.Insts = append(d.Insts[:k:k], append(rests, d.Insts[k:]...)...)
			mayRefuse = true
		}
		c := C06Case{Doc: d, Tracks: tracks, MayRefuse: mayRefuse}
		nt := false
		var classes []string
		for i, in := range d.Insts {
			if in.Chord == nil {
				nt = true
				if i == len(d.Insts)-1 {
					classes = append(classes, "trailing-rest")
				}
			}
			if i > 0 && (in.BPM != nil || in.Meter != nil || in.Key != nil || in.Txt != nil) {
				nt = true
				classes = append(classes, "control-change-after-tick-0")
			}
		}
		if mayRefuse {
			classes = append(classes, "silence-near-or-beyond-what-a-delta-time-holds")
		}
		for _, n := range tracks {
			if n-1 < 4 {
				classes = append(classes, "fewer-note-tracks-than-notes")
			}
			if n-1 > 6 {
				classes = append(classes, "more-note-tracks-than-notes")
			}
		}
		r.Case(d.YAML()+fmt.Sprint(d.Flags.Argv(), tracks), nt, dedup(classes)...)
		r.Sample(map[string]any{"args": d.Flags.Argv(), "yaml": d.YAML(), "tracks": tracks})
		r.Check(t, checkC06(c), "c06", c)
	})
}

var _ = smfread.ReadSMF
