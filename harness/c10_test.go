package harness

import (
	"fmt"
	"reflect"
	"sort"
	"strings"
	"testing"
	"unicode"
	"unicode/utf8"

	"github.com/berquerant/crd/input"
	"github.com/berquerant/crd/note"
	"github.com/berquerant/crd/op"
	"github.com/berquerant/crd/util"
	"gopkg.in/yaml.v3"
	"pgregory.net/rapid"
	"verifharness/theory"
)

// C10 - instances YAML is a faithful interchange format between the stages.

type C10Scalar struct {
	Type string   `json:"type"` // degree key value meter dynamic bpm meta instances
	A    uint64   `json:"a,omitempty"`
	B    uint64   `json:"b,omitempty"`
	S    string   `json:"s,omitempty"`
	KV   []string `json:"kv,omitempty"`
	Doc  *Doc     `json:"doc,omitempty"`
}

// yamlUnsafeForV3: yaml.v3 itself cannot round-trip a string that starts with
// whitespace and contains a line break (it prints a block scalar it reads
// back differently). Listed as a known finding (dependency); excluded from
// the generators by construction and counted.
func yamlUnsafeForV3(s string) bool {
	if s == "" {
		return false
	}
	r, _ := utf8.DecodeRuneInString(s)
	if !unicode.IsSpace(r) && r != 0xFEFF {
		return false
	}
	return strings.ContainsAny(s, "\n\r\u0085  ")
}

func roundTrip[T any](x T, what string) *Violation {
	b, err := yaml.Marshal(x)
	if err != nil {
		return vio("marshal", "%s: cannot marshal %#v: %v", what, x, err)
	}
	var y T
	if err := yaml.Unmarshal(b, &y); err != nil {
		return vio("reread-"+what, "%s: %#v prints as %q which is not read back: %v", what, x, b, err)
	}
	if !reflect.DeepEqual(x, y) {
		return vio("roundtrip-"+what, "%s: %#v prints as %q which reads back as %#v", what, x, b, y)
	}
	return nil
}

func checkC10Scalar(c C10Scalar) *Violation {
	return safely(func() *Violation {
		switch c.Type {
		case "degree":
			iv := theory.Interval{Num: int(c.A), Qual: theory.Qual(c.B)}
			d, ok := note.NewDegree(uint(c.A), qualToName[iv.Qual])
			if !ok {
				return nil
			}
			type wrap struct {
				D note.Degree  `yaml:"d"`
				P *note.Degree `yaml:"p,omitempty"`
			}
			return roundTrip(wrap{D: d, P: &d}, "degree")
		case "key":
			k, err := op.ParseKey(c.S)
			if err != nil {
				return vio("parsekey", "%q: %v", c.S, err)
			}
			if k.String() != c.S {
				return vio("roundtrip-key", "key %q prints as %q", c.S, k.String())
			}
			type wrap struct {
				K op.Key `yaml:"k"`
			}
			return roundTrip(wrap{k}, "key")
		case "value":
			v, err := note.NewValue(uint(c.A), uint(c.B))
			if err != nil {
				return nil
			}
			type wrap struct {
				V []note.Value `yaml:"v"`
			}
			return roundTrip(wrap{[]note.Value{v}}, "value")
		case "meter":
			m, err := op.NewMeter(uint(c.A), uint(c.B))
			if err != nil {
				return nil
			}
			type wrap struct {
				M op.Meter `yaml:"m"`
			}
			return roundTrip(wrap{m}, "meter")
		case "dynamic":
			d := op.NewDynamicSign(c.S)
			if d == op.UnknownDynamicSign {
				return vio("dynamic-unknown", "dynamic %q is not known", c.S)
			}
			type wrap struct {
				D op.DynamicSign `yaml:"d"`
			}
			return roundTrip(wrap{d}, "dynamic")
		case "bpm":
			b, err := op.NewBPM(uint(c.A))
			if err != nil {
				return nil
			}
			type wrap struct {
				B op.BPM `yaml:"b"`
			}
			return roundTrip(wrap{b}, "bpm")
		case "meta":
			type wrap struct {
				M *op.Meta `yaml:"m"`
			}
			m := op.Meta{}
			for i := 0; i+1 < len(c.KV); i += 2 {
				m[c.KV[i]] = c.KV[i+1]
				// pair by pair first, so that a failure names the string class it belongs to
				one := op.Meta{c.KV[i]: c.KV[i+1]}
				if v := roundTrip(wrap{&one}, "meta"); v != nil {
					switch {
					case c.KV[i] == "<<":
						v.Sig = "yaml-v3-merge-key"
					case yamlUnsafeForV3(c.KV[i]) || yamlUnsafeForV3(c.KV[i+1]):
						v.Sig = "yaml-v3-leading-space-linebreak"
					}
					return v
				}
			}
			return roundTrip(wrap{&m}, "meta")
		case "instances":
			insts, v := docToInput(*c.Doc)
			if v != nil {
				return v
			}
			return roundTrip(insts, "instances")
		}
		return vio("harness", "unknown scalar type %s", c.Type)
	})
}

// docToInput builds crd's own input.Instance values from a harness document (Layer B).
func docToInput(d Doc) ([]*input.Instance, *Violation) {
	var r []*input.Instance
	for _, in := range d.Insts {
		x := &input.Instance{}
		for _, v := range in.Values {
			x.Values = append(x.Values, note.Value{Rat: util.NewRat(uint(v.N), uint(v.D))})
		}
		if c := in.Chord; c != nil {
			dg, ok := note.NewDegree(uint(c.Deg.Num), qualToName[theory.Qual(c.Deg.Qual)])
			if !ok {
				return nil, vio("harness", "interval %v does not exist for crd", c.Deg)
			}
			ch := &input.Chord{Degree: dg, Chord: c.name()}
			if c.Bass != nil {
				b, ok := note.NewDegree(uint(c.Bass.Num), qualToName[theory.Qual(c.Bass.Qual)])
				if !ok {
					return nil, vio("harness", "interval %v does not exist for crd", c.Bass)
				}
				ch.Base = &b
			}
			x.Chord = ch
		}
		if in.BPM != nil {
			b := op.BPM(*in.BPM)
			x.BPM = &b
		}
		if in.Vel != nil {
			v := op.NewDynamicSign(*in.Vel)
			x.Velocity = &v
		}
		if in.Meter != nil {
			m := op.Meter{Rat: util.NewRat(uint(in.Meter.N), uint(in.Meter.D))}
			x.Meter = &m
		}
		if in.Key != nil {
			k, err := op.ParseKey(*in.Key)
			if err != nil {
				return nil, vio("parsekey", "%v", err)
			}
			x.Key = &k
		}
		if in.Txt != nil {
			m := op.Meta{}
			for k, v := range in.Txt {
				m[k] = v
			}
			x.Meta = &m
		}
		r = append(r, x)
	}
	return r, nil
}

// ---- (2) pipeline: text -> text conv -> write -> SMF = the model's music

type C10Pipe struct {
	Mode  string  `json:"mode"` // degree | syllable
	Key   string  `json:"key"`
	Items []PItem `json:"items"`
	Full  bool    `json:"full"` // durations without exact halves: settings are compared too
}

func checkC10Pipe(c C10Pipe) *Violation {
	var sent []SItem
	convArgs := []string{"text", "conv", c.Mode}
	if c.Mode == "degree" {
		sent = DegreeSentence(c.Items)
	} else {
		s, ok := SyllableSentence(c.Items, c.Key)
		if !ok {
			return vio("harness", "not expressible in %s", c.Key)
		}
		sent = s
		convArgs = append(convArgs, "--key", c.Key)
	}
	text := Render(sent, canonStyle{})
	conv := crd(text, convArgs...)
	if v := cleanOutcome(conv); v != nil {
		return v
	}
	if conv.Exit != 0 {
		return vio("conv-rejected", "crd %s refuses %q: %s", strings.Join(convArgs, " "), text, firstLines(conv.Stderr, 2))
	}
	wr := crd(string(conv.Stdout), "write", "--key", c.Key)
	if v := cleanOutcome(wr); v != nil {
		v.Msg = fmt.Sprintf("crd write on the output of `crd %s` for %q: %s\n%s", strings.Join(convArgs, " "), text, v.Msg, clip(string(conv.Stdout), 1200))
		return v
	}
	ctx := fmt.Sprintf("\ntext %q -> crd %s ->\n%s", text, strings.Join(convArgs, " "), clip(string(conv.Stdout), 1500))
	if wr.Exit != 0 {
		return vio("conv-output-refused-by-write", "`crd write` refuses what `text conv` printed: %s%s", firstLines(wr.Stderr, 2), ctx)
	}
	_, song, err := decode(wr.Stdout)
	if err != nil {
		return vio("not-smf", "%v", err)
	}
	d := ProgressionDoc(c.Items)
	k := c.Key
	d.Flags.Key = &k
	if v := comparePitches(d, song); v != nil {
		v.Sig = "pipeline-" + v.Sig
		v.Msg += ctx
		return v
	}
	if v := compareTiming(d, song); v != nil {
		v.Sig = "pipeline-" + v.Sig
		v.Msg += ctx
		return v
	}
	if c.Full {
		if v := compareSettings(d, song); v != nil {
			v.Sig = "pipeline-" + v.Sig
			v.Msg += ctx
			return v
		}
	}
	return nil
}

// ---- (3) write conv -c cmt | write

type C10Conv struct {
	Doc     Doc  `json:"doc"`
	InPlace bool `json:"in_place,omitempty"` // the document is annotated where it lies: write conv FILE -o FILE
}

func checkC10Conv(c C10Conv) *Violation {
	d := c.Doc
	d.Flags = Flags{Track: 1}
	y := d.YAML()
	ctx := "\n" + clip(y, 1500)
	_, ref, err := writeDoc(d)
	if err != nil {
		return vio("write-failed", "%v%s", err, ctx)
	}
	conv := crd(y, "write", "conv", "-c", "cmt")
	if c.InPlace {
		conv = Run{Argv: []string{"write", "conv", "-c", "cmt", "@song.yml", "-o", "@song.yml"}, Files: map[string]string{"song.yml": y}, OutArg: "song.yml", NoStdin: true}.Exec()
		if conv.Exit == 0 {
			if len(conv.Stdout) != 0 {
				return vio("stdout-with-o", "write conv FILE -o FILE also prints %d bytes%s", len(conv.Stdout), ctx)
			}
			conv.Stdout = conv.OutFile // what the next stage reads
		}
	}
	if v := cleanOutcome(conv); v != nil {
		return v
	}
	if conv.Exit != 0 {
		return vio("write-conv-failed", "crd write conv -c cmt: %s%s", firstLines(conv.Stderr, 2), ctx)
	}
	wr := crd(string(conv.Stdout), "write")
	if v := cleanOutcome(wr); v != nil {
		return v
	}
	ctx += "\n--- write conv -c cmt printed\n" + clip(string(conv.Stdout), 1500)
	if wr.Exit != 0 {
		return vio("conv-output-refused-by-write", "`crd write` refuses what `crd write conv` printed: %s%s", firstLines(wr.Stderr, 2), ctx)
	}
	_, song, err := decode(wr.Stdout)
	if err != nil {
		return vio("not-smf", "%v", err)
	}
	// identical music apart from the text events cmt is documented to set (one per chord)
	strip := func(evs []string) []string {
		var r []string
		for _, e := range evs {
			if strings.Contains(e, " ff 00 00 01 ") {
				continue
			}
			r = append(r, e)
		}
		return r
	}
	a, ea := rawEvents(ref)
	b, eb := rawEvents(song)
	sa, sb := strip(a), strip(b)
	if strings.Join(sa, "\n") != strings.Join(sb, "\n") {
		return vio("conv-changes-music", "`write conv -c cmt | write` does not give the music of `write`\n%s%s", diffLines(sa, sb), ctx)
	}
	if fmt.Sprint(ea) != fmt.Sprint(eb) {
		return vio("conv-changes-music", "end of track differs: %v vs %v%s", ea, eb, ctx)
	}
	// text events: one per chord at the chord's start; rests keep theirs
	obs, _ := Observed(song)
	ms := d.Model(song.Division)
	nChords, nRestTxt := 0, 0
	for i, m := range ms {
		if m.Notes != nil {
			nChords++
		} else if s, ok := d.Insts[i].Txt["txt"]; ok && s != "" {
			nRestTxt++
		}
	}
	got := 0
	for _, e := range obs {
		if e.Kind == "text" {
			got++
		}
	}
	if got != nChords+nRestTxt {
		return vio("cmt-text-count", "%d text events after cmt, expected one per chord (%d) plus the rests' own (%d)%s", got, nChords, nRestTxt, ctx)
	}
	return nil
}

func init() {
	reg("c10-scalar", checkC10Scalar)
	reg("c10-pipe", checkC10Pipe)
	reg("c10-conv", checkC10Conv)
}

var genUTF8 = rapid.OneOf(
	rapid.String(),
	rapid.StringOf(rapid.RuneFrom([]rune(":#-{}[]&*!|>'\"%@`, \n\tab01éü日🎵\u0085 \\~?"))),
	rapid.SampledFrom(append([]string{"", "null", "~", "true", "yes", "no", "on", "off", "0", "0x1f", "1e3", ".inf", ".nan", "-", "- a", "? a", ": a", "a: b", "a #b", "#", "'", "\"", "|", ">", "|-", ">+", "%YAML", "---", "...", "@", "`", "[", "]", "{", "}", ",", "a\nb", "a\n", "a\n\n", "a\rb", "a\tb", "a  ", " ", "a\u0085", "<<", "=", "!!str x", "&a", "*a", "2001-01-01", "12:30:45", "0o7", "+1", "-.5"}, textPool...)),
)

func TestC10Scalars(t *testing.T) {
	r := rec("C10")
	defer r.Flush()
	replayCorpus(t, r, "C10")
	i := 0
	run := func(c C10Scalar, class string) {
		if myShare(i) {
			r.CaseBC(true, class)
			r.Check(t, checkC10Scalar(c), "c10-scalar", c)
		}
		i++
	}
	for n := 1; n <= 64; n++ {
		for _, q := range theory.AllQuals {
			run(C10Scalar{Type: "degree", A: uint64(n), B: uint64(q)}, "scalar:degree")
		}
	}
	for _, k := range theory.AllSpellings42() {
		run(C10Scalar{Type: "key", S: k}, "scalar:key")
	}
	for _, d := range theory.Dynamics {
		run(C10Scalar{Type: "dynamic", S: d}, "scalar:dynamic")
	}
	r.MarkExhaustive("scalar round trips: 448 intervals, 42 key spellings, 6 dynamics")
	big := rapid.OneOf(rapid.Uint64Range(1, 5000), rapid.Uint64Range(1, 1<<32), rapid.Uint64Range(1<<32, 1<<63), rapid.SampledFrom([]uint64{1, 2, 3, 4, 960, 1 << 31, 1<<32 - 1, 1 << 32, 1<<63 - 1, 1<<64 - 1}))
	rapid.Check(t, func(t *rapid.T) {
		for j := 0; j < pick(20, 40); j++ {
			typ := rapid.SampledFrom([]string{"value", "meter", "bpm", "meta", "meta", "meta"}).Draw(t, "type")
			c := C10Scalar{Type: typ}
			switch typ {
			case "value", "meter":
				c.A, c.B = big.Draw(t, "a"), big.Draw(t, "b")
			case "bpm":
				c.A = big.Draw(t, "a")
			case "meta":
				n := rapid.IntRange(1, 4).Draw(t, "npairs")
				for k := 0; k < 2*n; k++ {
					s := genUTF8.Draw(t, "s")
					s = strings.ToValidUTF8(s, "?")
					if yamlUnsafeForV3(s) {
						r.Exclude("string starting with whitespace and containing a line break (yaml.v3 cannot round-trip it)")
						s = "x" + s
					}
					if s == "<<" && k%2 == 0 {
						r.Exclude("metadata key << (yaml.v3 reads it back as a merge key)")
						s = "<<x"
					}
					c.KV = append(c.KV, s)
				}
			}
			r.Case(fmt.Sprint(c), true, "scalar:"+typ)
			r.Check(t, checkC10Scalar(c), "c10-scalar", c)
		}
		// whole instance lists
		d := genDoc(DocOpts{MaxInsts: 8, MaxIvNum: 64, Settings: 30, Meta: 40, RestPct: 30}).Draw(t, "doc")
		c := C10Scalar{Type: "instances", Doc: &d}
		r.Case("I"+d.YAML(), true, "instance-list")
		r.Check(t, checkC10Scalar(c), "c10-scalar", c)
	})
}

func textHasYAMLSignificant(s string) bool {
	if s != strings.TrimSpace(s) {
		return true
	}
	for _, c := range s {
		if strings.ContainsRune(":#-{}[]&*!|>'\"%@`\n", c) || c > 127 {
			return true
		}
	}
	return false
}

func TestC10Pipeline(t *testing.T) {
	r := rec("C10")
	defer r.Flush()
	rapid.Check(t, func(t *rapid.T) {
		mode := rapid.SampledFrom([]string{"degree", "syllable"}).Draw(t, "mode")
		key := rapid.SampledFrom(theory.ListedKeys).Draw(t, "key")
		full := rapid.Bool().Draw(t, "full")
		o := ProgOpts{MaxItems: pick(8, 20), Syllable: mode == "syllable", MaxNum: 15, KeyChanges: 12, Settings: 20, Texts: 40, RestPct: 20, SimpleVals: full}
		ps := genProgression(o, key).Draw(t, "prog")
		c := C10Pipe{Mode: mode, Key: key, Items: ps, Full: full}
		nt := false
		cls := []string{"pipeline", "pipeline:" + mode}
		for _, p := range ps {
			for _, kv := range p.Txt {
				if textHasYAMLSignificant(kv[1]) {
					nt = true
					cls = append(cls, "yaml-significant-or-non-ascii-text")
				}
			}
			if !p.Rest && (p.Deg.Num > 7 || p.Bass != nil && p.Bass.Num > 7) {
				nt = true
				cls = append(cls, "compound-interval")
			}
		}
		r.Case(mode+key+Render(DegreeSentence(ps), canonStyle{}), nt, dedup(cls)...)
		r.Sample(map[string]any{"mode": mode, "key": key, "degree_text": Render(DegreeSentence(ps), canonStyle{})})
		r.Check(t, checkC10Pipe(c), "c10-pipe", c)
	})
}

func TestC10WriteConv(t *testing.T) {
	r := rec("C10")
	defer r.Flush()
	o := DocOpts{MaxInsts: pick(8, 25), MaxIvNum: 15, Settings: 20, Meta: 30, RestPct: 25, SimpleVals: false, Suffix: true}
	rapid.Check(t, func(t *rapid.T) {
		d := genDoc(o).Draw(t, "doc")
		d.Flags = Flags{Track: 1}
		c := C10Conv{Doc: d, InPlace: coin(t, "in-place", 20)}
		nt := false
		for _, in := range d.Insts {
			if in.Chord != nil && (len(theory.ChordTable[in.Chord.Sym]) != 3 || in.Chord.Bass != nil) {
				nt = true
			}
		}
		r.Case("W"+d.YAML(), nt, "write-conv-cmt")
		r.Check(t, checkC10Conv(c), "c10-conv", c)
	})
}

var _ = sort.Strings
