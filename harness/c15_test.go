package harness

import (
	"fmt"
	"strings"
	"testing"

	"github.com/berquerant/crd/chord"
	"github.com/berquerant/crd/note"
	"gopkg.in/yaml.v3"
	"verifharness/theory"
)

// C15 - every interval name has its textbook size and prints and parses back.

var qualToName = map[theory.Qual]note.DegreeName{
	theory.Major: note.MajorDegree, theory.Minor: note.MinorDegree, theory.Perfect: note.PerfectDegree,
	theory.Aug: note.AugmentedDegree, theory.Dim: note.DiminishedDegree, theory.DAug: note.DoublyAugmentedDegree, theory.DDim: note.DoublyDiminishedDegree,
}

var nameToQual = func() map[note.DegreeName]theory.Qual {
	m := map[note.DegreeName]theory.Qual{}
	for q, n := range qualToName {
		m[n] = q
	}
	return m
}()

func degreeToInterval(d note.Degree) (theory.Interval, bool) {
	q, ok := nameToQual[d.Name]
	return theory.Interval{Num: int(d.Value), Qual: q}, ok
}

type C15Case struct {
	Kind  string `json:"kind"` // degree | notation | string | add | cli-attr | cli-chord
	Num   int    `json:"num,omitempty"`
	Qual  int    `json:"qual,omitempty"`
	Text  string `json:"text,omitempty"`
	Root  string `json:"root,omitempty"`
	Attr  string `json:"attr,omitempty"`
	Sym   string `json:"sym,omitempty"`
	Sharp bool   `json:"sharp,omitempty"`
	Over  bool   `json:"over,omitempty"` // cli-attr: the report goes to -o FILE, and FILE already holds a longer, older report
}

func safely(f func() *Violation) (v *Violation) {
	defer func() {
		if r := recover(); r != nil {
			v = vio("panic", "panic: %v", r)
		}
	}()
	return f()
}

// spellExpected: natural when the pitch class is a natural note, else the requested accidental.
func spellExpected(root theory.Note, iv theory.Interval, sharp bool) (theory.Note, int) {
	s := root.Pitch() + iv.Semis()
	pc := ((s % 12) + 12) % 12
	oct := (s - pc) / 12
	for i := 0; i < 7; i++ {
		if theory.LetterPC[theory.Letters[i]] == pc {
			return theory.Note{Letter: theory.Letters[i]}, oct
		}
	}
	for i := 0; i < 7; i++ {
		l := theory.Letters[i]
		if sharp && theory.LetterPC[l]+1 == pc {
			return theory.Note{Letter: l, Acc: 1}, oct
		}
		if !sharp && theory.LetterPC[l]-1 == pc {
			return theory.Note{Letter: l, Acc: -1}, oct
		}
	}
	panic("unreachable")
}

func builtinAttr(name string) (chord.Attribute, bool) {
	for _, a := range chord.BasicAttributes() {
		if a.Name == name {
			return a, true
		}
	}
	return chord.Attribute{}, false
}

func checkAttrInfo(m map[string]any, root theory.Note, iv theory.Interval, sharp bool, what string) *Violation {
	wantNote, wantOct := spellExpected(root, iv, sharp)
	semi, _ := m["semitone"].(int)
	swo, _ := m["semitone_without_octave"].(int)
	applied, _ := m["applied"].(string)
	oct, _ := m["octave_diff"].(int)
	rs, _ := m["root"].(string)
	if semi != iv.Semis() {
		return vio("describe-semitone", "%s: semitone %d, theory %d", what, semi, iv.Semis())
	}
	if swo != ((iv.Semis()%12)+12)%12 {
		return vio("describe-semitone-wo", "%s: semitone_without_octave %d for %d", what, swo, iv.Semis())
	}
	if rs != root.String() {
		return vio("describe-root", "%s: root printed as %q", what, rs)
	}
	if applied != wantNote.String() || oct != wantOct {
		return vio("describe-applied", "%s: applied %q octave_diff %d, theory says %s octave %d", what, applied, oct, wantNote, wantOct)
	}
	return nil
}

func checkC15(c C15Case) *Violation {
	return safely(func() *Violation {
		switch c.Kind {
		case "degree":
			iv := theory.Interval{Num: c.Num, Qual: theory.Qual(c.Qual)}
			d, ok := note.NewDegree(uint(c.Num), qualToName[iv.Qual])
			if ok != iv.Exists() {
				return vio("existence", "NewDegree(%d, %s) ok=%v, theory says exists=%v", c.Num, iv.Qual, ok, iv.Exists())
			}
			if !ok {
				return nil
			}
			s, sok := d.Semitone()
			if !sok || int(s) != iv.Semis() {
				return vio("size", "%s measures %d (ok=%v), theory says %d", iv, s, sok, iv.Semis())
			}
			back, err := note.ParseDegree(d.String())
			if err != nil || back != d {
				return vio("print-parse", "%s prints as %q which parses to %v (err %v)", iv, d.String(), back, err)
			}
			// the print must also mean the interval under the documented reading (b = minor, or diminished
			// where no minor exists; bb = diminished ...); which of two equivalent spellings is printed is free
			if got, ok := theory.ReadNotation(d.String()); !ok || got != iv {
				return vio("notation", "%s prints as %q, which the documented notation reads as %v", iv, d.String(), got)
			}
		case "notation":
			// canonical prefix form and the suffix form of degree text
			want, wok := theory.ReadNotation(c.Text)
			wok = wok && want.Exists()
			d, err := note.ParseDegree(c.Text)
			if (err == nil) != wok {
				return vio("notation-accept", "ParseDegree(%q) err=%v, theory: meaningful=%v (%v)", c.Text, err, wok, want)
			}
			if err == nil {
				got, _ := degreeToInterval(d)
				if got != want {
					return vio("notation-meaning", "ParseDegree(%q) = %v, documented meaning %v", c.Text, got, want)
				}
			}
		case "string":
			d, err := note.ParseDegree(c.Text)
			if err != nil {
				return nil
			}
			iv, ok := degreeToInterval(d)
			if !ok || !iv.Exists() {
				return vio("string-accepts-nonexistent", "ParseDegree(%q) = %+v which is not an existing interval", c.Text, d)
			}
			if s, sok := d.Semitone(); !sok || int(s) != iv.Semis() {
				return vio("size", "ParseDegree(%q) = %v measuring %d, theory %d", c.Text, iv, s, iv.Semis())
			}
			back, err := note.ParseDegree(d.String())
			if err != nil || back != d {
				return vio("print-parse", "ParseDegree(%q) = %v prints as %q which parses to %v (%v)", c.Text, iv, d.String(), back, err)
			}
			// the number of an accepted notation is the number that is written: decimal, leading zeros or not
			digits, runs, in := "", 0, false
			for _, r := range c.Text {
				if r >= '0' && r <= '9' {
					if !in {
						runs++
					}
					in = true
					digits += string(r)
				} else {
					in = false
				}
			}
			if runs != 1 {
				return vio("string-accepts-malformed", "ParseDegree(%q) accepts a text with %d separate runs of digits as %v", c.Text, runs, iv)
			}
			n := 0
			for _, r := range digits {
				n = n*10 + int(r-'0')
			}
			if n != iv.Num {
				return vio("string-number", "ParseDegree(%q) = %v: the text says %d (decimal), the interval has number %d", c.Text, iv, n, iv.Num)
			}
		case "add":
			a, ok := builtinAttr(c.Attr)
			if !ok {
				return vio("harness", "no attribute %s", c.Attr)
			}
			iv, ok := theory.AttrEnglish(c.Attr)
			if !ok {
				return vio("harness", "cannot read attribute name %s", c.Attr)
			}
			rn, _ := parseNoteName(c.Root)
			root, err := note.ParseNote(c.Root)
			if err != nil {
				return vio("parsenote", "ParseNote(%q): %v", c.Root, err)
			}
			got, oct, err := root.AddDegree(a.Degree, c.Sharp)
			if err != nil {
				return vio("add-error", "%s + %s: %v", c.Root, c.Attr, err)
			}
			wantNote, wantOct := spellExpected(rn, iv, c.Sharp)
			if got.String() != wantNote.String() || int(oct) != wantOct {
				return vio("add", "%s + %s (sharp=%v) = %s octave %d, theory says %s octave %d", c.Root, c.Attr, c.Sharp, got, oct, wantNote, wantOct)
			}
		case "cli-attr":
			iv, _ := theory.AttrEnglish(c.Attr)
			rn, _ := parseNoteName(c.Root)
			argv := []string{"info", "attr", "describe", "-t", c.Attr, "-r", c.Root}
			if f := sharpFlag(c.Sharp, len(c.Root)+len(c.Attr)); f != "" {
				argv = append(argv, f)
			}
			var res Result
			if c.Over {
				// the report is what the file says afterwards: nothing of an older report may be left in it
				old := "attribute:\n  name: Major14\n  degree: \"14\"\nroot: B\napplied: A\nsemitone: 23\nsemitone_without_octave: 11\noctave_diff: 2\n# an older report\nnote: kept from last time\noctave_diff: 2\n"
				argv = append(argv, "-o", "@report.yml")
				res = Run{Argv: argv, Files: map[string]string{"report.yml": old}, OutArg: "report.yml", NoStdin: true}.Exec()
				if res.Exit == 0 && !res.HasOut {
					return vio("describe-output", "crd %s: no report file", strings.Join(argv, " "))
				}
				res.Stdout = res.OutFile
			} else {
				res = crd("", argv...)
			}
			if v := cleanOutcome(res); v != nil {
				return v
			}
			if res.Exit != 0 {
				return vio("describe-failed", "crd %s: %s", strings.Join(argv, " "), firstLines(res.Stderr, 2))
			}
			var m map[string]any
			if err := yaml.Unmarshal(res.Stdout, &m); err != nil {
				return vio("describe-output", "crd %s: %v\n%s", strings.Join(argv, " "), err, res.Stdout)
			}
			return checkAttrInfo(m, rn, iv, c.Sharp, "crd "+strings.Join(argv, " "))
		case "cli-chord":
			rn, _ := parseNoteName(c.Root)
			target := c.Root + c.Sym
			if c.Sym != "" && needsUnderscore(c.Sym) {
				target = c.Root + "_" + c.Sym
			}
			argv := []string{"info", "chord", "describe", "-t", target}
			if f := sharpFlag(c.Sharp, len(c.Root)+len(c.Attr)); f != "" {
				argv = append(argv, f)
			}
			res := crd("", argv...)
			if v := cleanOutcome(res); v != nil {
				return v
			}
			if res.Exit != 0 {
				return vio("describe-failed", "crd %s: %s", strings.Join(argv, " "), firstLines(res.Stderr, 2))
			}
			var m map[string]any
			if err := yaml.Unmarshal(res.Stdout, &m); err != nil {
				return vio("describe-output", "%v", err)
			}
			attrs, _ := m["attributes"].([]any)
			want := theory.ChordTable[c.Sym]
			if len(attrs) != len(want) {
				return vio("describe-chord-tones", "crd %s lists %d tones, the chord has %d", strings.Join(argv, " "), len(attrs), len(want))
			}
			for i, a := range attrs {
				am, _ := a.(map[string]any)
				inner, _ := am["attribute"].(map[string]any)
				name, _ := inner["name"].(string)
				iv, ok := theory.AttrEnglish(name)
				if !ok || iv.Semis() != want[i] {
					return vio("describe-chord-tones", "crd %s: tone %d is %s, conventional size %d", strings.Join(argv, " "), i, name, want[i])
				}
				if v := checkAttrInfo(am, rn, iv, c.Sharp, fmt.Sprintf("crd %s tone %s", strings.Join(argv, " "), name)); v != nil {
					return v
				}
			}
		}
		return nil
	})
}

func init() { reg("c15", checkC15) }

func TestC15(t *testing.T) {
	r := rec("C15")
	defer r.Flush()
	replayCorpus(t, r, "C15")
	i := 0
	run := func(c C15Case, nt bool, class string) {
		if myShare(i) {
			r.CaseBC(nt, class)
			if len(r.Samples) < 8 && i%53 == shardIndex() {
				r.Samples = append(r.Samples, c)
			}
			r.Check(t, checkC15(c), "c15", c)
		}
		i++
	}
	// literals of the unit tests (trivial by the stated rule)
	unit := map[string]bool{"1": true, "2": true, "b2": true, "bb4": true, "bbb4": true, "#5": true, "##5": true, "b3": true, "4": true, "#4": true, "bb5": true, "bb7": true, "bbb7": true, "11": true, "b7": true, "7": true, "#7": true, "##7": true}
	for n := 1; n <= 64; n++ {
		for _, q := range theory.AllQuals {
			iv := theory.Interval{Num: n, Qual: q}
			run(C15Case{Kind: "degree", Num: n, Qual: int(q)}, !unit[iv.Notation()], "degree")
		}
	}
	for n := 1; n <= 64; n++ {
		for _, pre := range []string{"", "b", "#", "bb", "##", "bbb"} {
			run(C15Case{Kind: "notation", Text: fmt.Sprintf("%s%d", pre, n)}, true, "canonical-notation")
		}
		for _, suf := range []string{"b", "#"} {
			run(C15Case{Kind: "notation", Text: fmt.Sprintf("%d%s", n, suf)}, true, "suffix-notation")
		}
	}
	r.MarkExhaustive("numbers 1..64 x 7 qualities; canonical and suffix notations of 1..64")
	// all strings over b # 0-9 up to length 5 (4 in quick)
	alpha := "b#0123456789"
	maxLen := pick(4, 5)
	var rec func(s string)
	rec = func(s string) {
		if len(s) > 0 {
			run(C15Case{Kind: "string", Text: s}, true, "string<=5")
		}
		if len(s) == maxLen {
			return
		}
		for k := 0; k < len(alpha); k++ {
			rec(s + string(alpha[k]))
		}
	}
	rec("")
	r.MarkExhaustive(fmt.Sprintf("all strings over {b # 0-9} of length <= %d", maxLen))
	// 21 roots x every built-in attribute x both preferences
	attrs := chord.BasicAttributes()
	for _, root := range theory.AllNotes21() {
		for _, a := range attrs {
			for _, sharp := range []bool{false, true} {
				run(C15Case{Kind: "add", Root: root.String(), Attr: a.Name, Sharp: sharp}, true, "add-degree")
			}
		}
	}
	r.MarkExhaustive(fmt.Sprintf("21 roots x %d built-in attributes x 2 accidental preferences (Note.AddDegree)", len(attrs)))
	// CLI: sample in quick, all in thorough
	step := pick(9, 1)
	j := 0
	for _, root := range theory.AllNotes21() {
		for _, a := range attrs {
			for _, sharp := range []bool{false, true} {
				if j%step == 0 {
					run(C15Case{Kind: "cli-attr", Root: root.String(), Attr: a.Name, Sharp: sharp}, true, "cli-attr-describe")
					if j%(step*4) == 0 {
						run(C15Case{Kind: "cli-attr", Root: root.String(), Attr: a.Name, Sharp: sharp, Over: true}, true, "cli-attr-describe-over-an-older-report")
					}
				}
				j++
			}
		}
	}
	step = pick(4, 1)
	for _, root := range theory.AllNotes21() {
		for _, sym := range theory.Displays {
			for _, sharp := range []bool{false, true} {
				if j%step == 0 {
					run(C15Case{Kind: "cli-chord", Root: root.String(), Sym: sym, Sharp: sharp}, true, "cli-chord-describe")
				}
				j++
			}
		}
	}
	if step == 1 {
		r.MarkExhaustive("crd info attr describe and info chord describe for every root x attribute / chord x preference")
	}
}

func perfectUnison() note.Degree {
	d, _ := note.NewDegree(1, note.PerfectDegree)
	return d
}

// sharpFlag: the spellings the command line has for "sharps please" and for "flats please" (the default); which one is
// used is a function of the case, so that runs and replays agree.
func sharpFlag(sharp bool, salt int) string {
	if sharp {
		return []string{"-s", "--precedeSharp", "--precedeSharp=true", "-s=true"}[salt%4]
	}
	return []string{"", "", "--precedeSharp=false", "-s=false"}[salt%4]
}
