package harness

import (
	"fmt"
	"strings"
	"unicode"

	"pgregory.net/rapid"
	"verifharness/theory"
)

// ------------------------------------------------- syntactic sentence model

// SDeg is a written root or bass: Head is a letter or a digit string, Acc is
// the logical accidental "", "#" or "b".
type SDeg struct {
	Head string `json:"head"`
	Acc  string `json:"acc,omitempty"`
}

type SVal struct {
	Num string `json:"num"`
	Den string `json:"den,omitempty"` // "" = no denominator
}

type SItem struct {
	Rest bool        `json:"rest,omitempty"`
	Deg  SDeg        `json:"deg"`
	Sym  string      `json:"sym,omitempty"`
	Bass *SDeg       `json:"bass,omitempty"`
	Vals []SVal      `json:"vals"`
	Meta [][2]string `json:"meta,omitempty"`
}

// needsUnderscore: a symbol whose first rune the lexer would read as another
// token must be introduced by `_`.
func needsUnderscore(sym string) bool {
	r := []rune(sym)[0]
	return strings.ContainsRune("CDEFGABR]{},#♯b♭0123456789", r)
}

// validSymbol: can this text be a SYMBOL token at all?
func validSymbol(sym string) bool {
	if sym == "" {
		return false
	}
	for _, r := range sym {
		if unicode.IsSpace(r) || strings.ContainsRune("/[_;=", r) {
			return false
		}
	}
	return true
}

// Style decides the free spelling choices of a rendering. Every method is
// consulted at one place of the text; the canonical style answers "nothing".
type Style interface {
	Trivia(ctx string) string // ctx: "norm" between tokens, "us" between _ and its symbol, "meta" before a key/value token
	Underscore() bool         // write `_` before a symbol that does not need it
	Zeros() int               // leading zeros on a duration number
	UnicodeAcc() bool         // write ♯ / ♭ instead of # / b
	EOFComment() string       // a comment without final newline at the very end of the text ("" = none)
}

type canonStyle struct{}

func (canonStyle) Trivia(string) string { return "" }
func (canonStyle) Underscore() bool     { return false }
func (canonStyle) Zeros() int           { return 0 }
func (canonStyle) UnicodeAcc() bool     { return false }
func (canonStyle) EOFComment() string   { return "" }

// rapidStyle draws every choice from rapid, so that renderings shrink and replay.
type rapidStyle struct {
	t       *rapid.T
	trivia  bool
	us      bool
	zeros   bool
	uni     bool
	nEdits  map[string]int
	comment bool
}

var normTrivia = []string{"", "", "", " ", "  ", "\t", "\n", " \n ", ";c\n", " ; x[1]{=} C_7/E\n", "\r\n", ";\n", ";a\n;b\n", "; one\n ; two\n\n;three\n;4\n", "\t;x\n\t", " \t ", ";a\tb\n", "; was:\tR[4] C[1]\n", "; x\r y\n", ";\x01\x7f\n", "; é日本 ♯\n"}
var metaTrivia = []string{"", "", " ", "\t", "\n", "  \n"}

func (s *rapidStyle) Trivia(ctx string) string {
	if !s.trivia {
		return ""
	}
	pool := normTrivia
	if ctx != "norm" {
		pool = metaTrivia
	}
	x := rapid.SampledFrom(pool).Draw(s.t, "trivia")
	if x != "" {
		s.nEdits["trivia"]++
		if strings.Contains(x, ";") {
			s.nEdits["comment"]++
		}
	}
	return x
}
func (s *rapidStyle) Underscore() bool {
	if !s.us {
		return false
	}
	b := rapid.Bool().Draw(s.t, "us")
	if b {
		s.nEdits["underscore"]++
	}
	return b
}
func (s *rapidStyle) Zeros() int {
	if !s.zeros {
		return 0
	}
	n := rapid.SampledFrom([]int{0, 0, 0, 1, 1, 2, 3, 22, 60}).Draw(s.t, "zeros") // padded beyond the digits of any machine integer too
	if n > 0 {
		s.nEdits["zeros"]++
	}
	return n
}
func (s *rapidStyle) EOFComment() string {
	if !s.trivia {
		return ""
	}
	x := rapid.SampledFrom([]string{"", "", "", "", ";", "; last line, no newline", " ;x\ty"}).Draw(s.t, "eof-comment")
	if x != "" {
		s.nEdits["comment"]++
		s.nEdits["trivia"]++
	}
	return x
}

func (s *rapidStyle) UnicodeAcc() bool {
	if !s.uni {
		return false
	}
	b := rapid.Bool().Draw(s.t, "uniacc")
	if b {
		s.nEdits["unicode-accidental"]++
	}
	return b
}

// Render writes the sentence. Trivia is only inserted where the documented
// tokenisation makes it trivia.
func Render(items []SItem, st Style) string {
	var sb strings.Builder
	acc := func(a string) string {
		if a == "" {
			return ""
		}
		if st.UnicodeAcc() {
			if a == "#" {
				return "♯"
			}
			return "♭"
		}
		return a
	}
	deg := func(d SDeg) {
		sb.WriteString(d.Head)
		if d.Acc != "" {
			sb.WriteString(st.Trivia("norm"))
			sb.WriteString(acc(d.Acc))
		}
	}
	num := func(n string) string { return strings.Repeat("0", st.Zeros()) + n }
	for _, it := range items {
		sb.WriteString(st.Trivia("norm"))
		if it.Rest {
			sb.WriteString("R")
		} else {
			deg(it.Deg)
			if it.Sym != "" {
				sb.WriteString(st.Trivia("norm"))
				if needsUnderscore(it.Sym) || st.Underscore() {
					sb.WriteString("_")
					sb.WriteString(st.Trivia("us"))
				}
				sb.WriteString(it.Sym)
			}
			if it.Bass != nil {
				sb.WriteString(st.Trivia("norm") + "/" + st.Trivia("norm"))
				deg(*it.Bass)
			}
		}
		sb.WriteString(st.Trivia("norm") + "[")
		for i, v := range it.Vals {
			if i > 0 {
				sb.WriteString(st.Trivia("norm") + ",")
			}
			sb.WriteString(st.Trivia("norm") + num(v.Num))
			if v.Den != "" {
				sb.WriteString(st.Trivia("norm") + "/" + st.Trivia("norm") + num(v.Den))
			}
		}
		sb.WriteString(st.Trivia("norm") + "]")
		if len(it.Meta) > 0 {
			sb.WriteString(st.Trivia("norm") + "{")
			for i, kv := range it.Meta {
				if i > 0 {
					sb.WriteString(",")
				}
				sb.WriteString(st.Trivia("meta") + kv[0] + "=" + st.Trivia("meta") + kv[1])
			}
			sb.WriteString("}")
		}
	}
	sb.WriteString(st.Trivia("norm"))
	sb.WriteString(st.EOFComment())
	return sb.String()
}

// ----------------------------------------------------- abstract progressions

// PItem is one item of an abstract progression: meaning, not spelling.
type PItem struct {
	Rest bool        `json:"rest,omitempty"`
	Deg  IV          `json:"deg"` // root above the tonic: number 1..7 (or compound), quality major/perfect, minor/dim (b), augmented (#)
	Sym  string      `json:"sym,omitempty"`
	Bass *IV         `json:"bass,omitempty"` // above the root
	Vals []Frac      `json:"vals"`
	Key  *string     `json:"key,omitempty"` // {key=K'}: applies from this item onwards
	BPM  *int        `json:"bpm,omitempty"`
	Vel  *string     `json:"vel,omitempty"`
	Mtr  *Frac       `json:"mtr,omitempty"`
	Txt  [][2]string `json:"txt,omitempty"` // txt / lic / mrk / other
}

// textAcc maps an interval quality to the single accidental the text can carry.
func textAcc(iv theory.Interval) (string, bool) {
	switch iv.Qual {
	case theory.Major, theory.Perfect:
		return "", true
	case theory.Minor:
		return "b", true
	case theory.Dim:
		if theory.IsPerfectNum(iv.Num) {
			return "b", true
		}
		return "", false
	case theory.Aug:
		return "#", true
	}
	return "", false
}

// textIntervals lists the intervals of number 1..maxNum that degree text can write (num + one accidental).
func textIntervals(maxNum int) []IV {
	var r []IV
	for n := 1; n <= maxNum; n++ {
		for _, q := range theory.QualsFor(n) {
			if _, ok := textAcc(theory.Interval{Num: n, Qual: q}); ok {
				r = append(r, IV{n, int(q)})
			}
		}
	}
	return r
}

// noteAbove spells the note an interval above a note: letter by number,
// accidental by size. ok=false when it needs more than one accidental.
func noteAbove(n theory.Note, iv theory.Interval) (theory.Note, bool) {
	li := (theory.LetterIndex(n.Letter) + iv.Num - 1) % 7
	l := theory.Letters[li]
	want := n.Pitch() + iv.Semis()
	// pitch of the natural letter in the right octave
	nat := theory.LetterPC[l] + 12*((theory.LetterIndex(n.Letter)+iv.Num-1)/7)
	acc := want - nat
	if acc < -1 || acc > 1 {
		return theory.Note{}, false
	}
	return theory.Note{Letter: l, Acc: acc}, true
}

func sdegOfNote(n theory.Note) SDeg {
	a := ""
	if n.Acc == 1 {
		a = "#"
	} else if n.Acc == -1 {
		a = "b"
	}
	return SDeg{Head: string(n.Letter), Acc: a}
}

func sdegOfInterval(iv IV) SDeg {
	a, _ := textAcc(iv.T())
	return SDeg{Head: fmt.Sprint(iv.Num), Acc: a}
}

// syllableSafe: intervals the note-name notation cannot express reliably are
// left out of the domain: the flattened unison (no note name) and the
// sharpened seventh (enharmonic to the tonic; refused in most keys).
func syllableSafe(iv theory.Interval) bool {
	simple := (iv.Num-1)%7 + 1
	if simple == 1 && iv.Qual == theory.Dim {
		return false
	}
	if simple == 7 && iv.Qual == theory.Aug {
		return false
	}
	return true
}

func fracsToSVals(vs []Frac) []SVal {
	var r []SVal
	for _, v := range vs {
		s := SVal{Num: fmt.Sprint(v.N)}
		if v.D != 1 {
			s.Den = fmt.Sprint(v.D)
		}
		r = append(r, s)
	}
	return r
}

func (p PItem) metaPairs() [][2]string {
	var m [][2]string
	if p.Key != nil {
		m = append(m, [2]string{"key", *p.Key})
	}
	if p.BPM != nil {
		m = append(m, [2]string{"bpm", fmt.Sprint(*p.BPM)})
	}
	if p.Vel != nil {
		m = append(m, [2]string{"vel", *p.Vel})
	}
	if p.Mtr != nil {
		m = append(m, [2]string{"mtr", fmt.Sprintf("%d/%d", p.Mtr.N, p.Mtr.D)})
	}
	m = append(m, p.Txt...)
	return m
}

// DegreeSentence spells the progression with degree numbers.
func DegreeSentence(ps []PItem) []SItem {
	var r []SItem
	for _, p := range ps {
		it := SItem{Rest: p.Rest, Vals: fracsToSVals(p.Vals), Meta: p.metaPairs()}
		if !p.Rest {
			it.Deg = sdegOfInterval(p.Deg)
			it.Sym = p.Sym
			if p.Bass != nil {
				b := sdegOfInterval(*p.Bass)
				it.Bass = &b
			}
		}
		r = append(r, it)
	}
	return r
}

// SyllableSentence spells the progression with note names, starting in key
// k0 and following the {key=} changes. ok=false if a note needs a double accidental.
func SyllableSentence(ps []PItem, k0 string) ([]SItem, bool) {
	key := theory.ParseKey(k0)
	var r []SItem
	for _, p := range ps {
		if p.Key != nil {
			key = theory.ParseKey(*p.Key)
		}
		it := SItem{Rest: p.Rest, Vals: fracsToSVals(p.Vals), Meta: p.metaPairs()}
		if !p.Rest {
			root, ok := noteAbove(key.Tonic(), p.Deg.T())
			if !ok {
				return nil, false
			}
			it.Deg = sdegOfNote(root)
			it.Sym = p.Sym
			if p.Bass != nil {
				bn, ok := noteAbove(root, p.Bass.T())
				if !ok {
					return nil, false
				}
				b := sdegOfNote(bn)
				it.Bass = &b
			}
		}
		r = append(r, it)
	}
	return r, true
}

// ToDoc gives the instances document the progression denotes (what `text
// conv` must print, as a model), for feeding the write-side oracles.
func ProgressionDoc(ps []PItem) Doc {
	var d Doc
	for _, p := range ps {
		in := Inst{Values: p.Vals, BPM: p.BPM, Vel: p.Vel, Meter: p.Mtr, Key: p.Key}
		if !p.Rest {
			c := &ChordSpec{Deg: p.Deg, Sym: p.Sym}
			if p.Bass != nil {
				b := *p.Bass
				c.Bass = &b
			}
			in.Chord = c
		}
		if len(p.Txt) > 0 {
			in.Txt = map[string]string{}
			for _, kv := range p.Txt {
				in.Txt[kv[0]] = kv[1]
			}
		}
		d.Insts = append(d.Insts, in)
	}
	d.Flags.Track = 1
	return d
}

// ------------------------------------------------------------- generators

// expressible[(key, interval)] tables, built once: construction, not rejection.
var rootTable = map[string][]IV{}

func init() {
	for _, ks := range theory.ListedKeys {
		k := theory.ParseKey(ks)
		for _, iv := range textIntervals(7) {
			if !syllableSafe(iv.T()) {
				continue
			}
			if _, ok := noteAbove(k.Tonic(), iv.T()); ok {
				rootTable[ks] = append(rootTable[ks], iv)
			}
		}
	}
}

// bassChoices: intervals above root that the note-name notation can express.
func bassChoices(root theory.Note) []IV {
	var r []IV
	for _, iv := range textIntervals(7) {
		if !syllableSafe(iv.T()) {
			continue
		}
		if _, ok := noteAbove(root, iv.T()); ok {
			r = append(r, iv)
		}
	}
	return r
}

// metaValueText: free text usable as a metadata value in chord text: no
// `{ } = ,`, no leading whitespace (the lexer drops it), and - because crd's
// lexer keeps blanks before `, } =` in the token while the documentation is
// silent about them - no trailing whitespace either.
var genMetaText = rapid.Custom(func(t *rapid.T) string {
	s := rapid.OneOf(
		rapid.StringMatching(`[a-zA-Z0-9][a-zA-Z0-9 ]{0,10}[a-zA-Z0-9]`),
		rapid.StringOfN(rapid.RuneFrom(unicodeLetters), 1, 8, -1),
		anyLetters,
		rapid.SampledFrom([]string{"a: b", "- x", "#h", "x;y", "[1]", "C_7/E", "\"q\"", "true", "null", "~", "é日本🎵", "a b", "|", ">", "'", "&a", "*a", "!t", "%", "@", "`", "0", "1e3", "yes", "a #c", "C#m7", "♯♭", "x\ny", "a\tb", "key: C", "- ", "? x", ": y"}),
		rapid.StringMatching(`[a-z:#\-\[\]&*!|>'"%@;/_ ]{1,10}`),
	).Draw(t, "metatext")
	s = strings.Map(func(r rune) rune {
		if strings.ContainsRune("{}=,", r) {
			return '.'
		}
		return r
	}, s)
	s = strings.TrimFunc(s, unicode.IsSpace)
	if s == "" {
		s = "x"
	}
	return s
})

var exoticSyms = []string{"MajorSeventh", "DominantSeventh", "+", "(b9)", "ø", "Δ7", "m]x", "{x}", "x,y", "7#9", "b5", "#11", "]", "o7", "R", "C", "}", ",", "♭9", "é", "13", "007", "１", "٢x", "m৩", "no5", "no3", "n", "nat"}

type ProgOpts struct {
	MaxItems   int
	Syllable   bool // restrict roots/basses to what note names can express in the running key
	MaxNum     int  // degree-only progressions may use compound numbers
	KeyChanges int  // percent
	Settings   int
	Texts      int
	RestPct    int
	SimpleVals bool // durations that are multiples of a quarter beat (no exact halves)
	ExoticSyms bool // symbols outside the dictionary (text conv does not interpret them)
}

// genProgression draws an abstract progression that is valid by construction
// in every notation requested. k0 is the key the syllable rendering starts in.
func genProgression(o ProgOpts, k0 string) *rapid.Generator[[]PItem] {
	return rapid.Custom(func(t *rapid.T) []PItem {
		n := rapid.IntRange(1, o.MaxItems).Draw(t, "nitems")
		if coin(t, "long-progression", 4) {
			n = rapid.IntRange(60, 260).Draw(t, "long-nitems") // a long piece: several KB of text, hundreds of instances
		}
		key := k0
		var ps []PItem
		hasChord := false
		if coin(t, "tacet-intro", 4) {
			// a long tacet introduction: the first chord comes after dozens of rests
			for k := rapid.IntRange(30, 140).Draw(t, "tacet-bars"); k > 0; k-- {
				ps = append(ps, PItem{Rest: true, Vals: []Frac{{4, 1}}})
			}
		}
		for i := 0; i < n; i++ {
			var p PItem
			p.Rest = coin(t, "rest", o.RestPct)
			if i == n-1 && !hasChord {
				p.Rest = false // `text conv` refuses pieces without any chord
			}
			if coin(t, "keychange", o.KeyChanges) {
				k := rapid.SampledFrom(theory.ListedKeys).Draw(t, "newkey")
				if coin(t, "related-key", 50) {
					// the modulations music actually uses: relative, parallel, dominant, subdominant, same key again
					k = rapid.SampledFrom(relatedKeys(key)).Draw(t, "related")
				}
				p.Key = &k
				key = k
			}
			if !p.Rest {
				hasChord = true
				if o.Syllable {
					p.Deg = rapid.SampledFrom(rootTable[key]).Draw(t, "root")
					root, _ := noteAbove(theory.ParseKey(key).Tonic(), p.Deg.T())
					if coin(t, "bass", 35) {
						b := rapid.SampledFrom(bassChoices(root)).Draw(t, "bassiv")
						p.Bass = &b
					}
				} else {
					p.Deg = rapid.SampledFrom(textIntervals(o.MaxNum)).Draw(t, "root")
					if coin(t, "bass", 35) {
						b := rapid.SampledFrom(textIntervals(o.MaxNum)).Draw(t, "bassiv")
						p.Bass = &b
					}
				}
				p.Sym = rapid.SampledFrom(theory.Displays).Draw(t, "sym")
				if o.ExoticSyms && coin(t, "exotic", 25) {
					p.Sym = rapid.SampledFrom(exoticSyms).Draw(t, "exotic-sym")
				}
			}
			if o.SimpleVals {
				p.Vals = []Frac{{rapid.IntRange(1, 6).Draw(t, "sv"), rapid.SampledFrom([]int{1, 1, 2, 4}).Draw(t, "sd")}}
			} else {
				p.Vals = genValues(3).Draw(t, "vals")
				if !p.Rest {
					p.Vals = audible(p.Vals)
				}
			}
			p.BPM = opt(t, "bpm", o.Settings, genBPM)
			p.Vel = opt(t, "vel", o.Settings, rapid.SampledFrom(theory.Dynamics))
			p.Mtr = opt(t, "mtr", o.Settings, genMeter)
			if coin(t, "texts", o.Texts) {
				for _, k := range []string{"txt", "lic", "mrk"} {
					if coin(t, k+"?", 50) {
						p.Txt = append(p.Txt, [2]string{k, genMetaText.Draw(t, k)})
					}
				}
			}
			ps = append(ps, p)
		}
		return ps
	})
}

// audible makes a chord last at least one tick (the timing oracles tell
// chords apart by their onset): by construction, not by rejection.
func audible(vs []Frac) []Frac {
	if lo, _ := ticksOf(vs, 960); lo >= 1 {
		return vs
	}
	vs = append(append([]Frac{}, vs...), Frac{1, vs[0].D})
	if lo, _ := ticksOf(vs, 960); lo >= 1 {
		return vs
	}
	return []Frac{{1, 7}}
}

// relatedKeys lists the listed keys one conversion step away from k (and k itself, and its enharmonic twins).
func relatedKeys(k string) []string {
	kk := theory.ParseKey(k)
	r := []string{k}
	for _, c := range "rpds" {
		pos, minor := theory.ConvStep(kk.CirclePos(), kk.Minor, byte(c))
		r = append(r, theory.KeysAt(pos, minor)...)
	}
	r = append(r, theory.KeysAt(kk.CirclePos(), kk.Minor)...)
	return r
}
