package harness

import (
	"bytes"
	"fmt"
	"strings"
	"testing"

	"pgregory.net/rapid"
	"verifharness/theory"
)

// C11 - spelling variants of the same chord text give byte-identical results.

type C11Case struct {
	Mode    string `json:"mode"` // degree | syllable
	Key     string `json:"key,omitempty"`
	Canon   string `json:"canon"`
	Variant string `json:"variant"`
	Edits   string `json:"edits,omitempty"`
}

func checkC11(c C11Case) *Violation {
	argv := []string{"text", "conv", c.Mode}
	if c.Mode == "syllable" {
		argv = append(argv, "--key", c.Key)
	}
	a := Run{Argv: argv, Stdin: c.Canon}.Exec()
	b := Run{Argv: argv, Stdin: c.Variant}.Exec()
	for _, x := range []struct {
		r Result
		s string
	}{{a, c.Canon}, {b, c.Variant}} {
		if v := cleanOutcome(x.r); v != nil {
			v.Msg = fmt.Sprintf("crd %s on %q: %s", strings.Join(argv, " "), x.s, v.Msg)
			return v
		}
	}
	if a.Exit != 0 {
		return vio("canonical-rejected", "crd %s refuses the canonical text %q (valid by construction): %s", strings.Join(argv, " "), c.Canon, firstLines(a.Stderr, 2))
	}
	if b.Exit != a.Exit {
		sig := "variant-rejected"
		if strings.ContainsAny(c.Variant, "♯♭") {
			sig = "variant-rejected-unicode-accidental"
		}
		return vio(sig, "crd %s: canonical %q exits %d, variant %q exits %d: %s", strings.Join(argv, " "), c.Canon, a.Exit, c.Variant, b.Exit, firstLines(b.Stderr, 2))
	}
	if !bytes.Equal(a.Stdout, b.Stdout) {
		sig := "variant-differs"
		if strings.ContainsAny(c.Variant, "♯♭") {
			// is the difference explained by the unicode accidentals alone?
			ascii := strings.NewReplacer("♯", "#", "♭", "b").Replace(c.Variant)
			if r := (Run{Argv: argv, Stdin: ascii}).Exec(); r.Exit == 0 && bytes.Equal(r.Stdout, a.Stdout) {
				sig = "unicode-accidental-read-differently"
			}
		}
		return vio(sig, "crd %s prints different results for two spellings of one text (edits: %s)\ncanonical %q\nvariant   %q\n--- canonical output\n%s--- variant output\n%s", strings.Join(argv, " "), c.Edits, c.Canon, c.Variant, clip(string(a.Stdout), 1500), clip(string(b.Stdout), 1500))
	}
	return nil
}

func init() { reg("c11", checkC11) }

func TestC11(t *testing.T) {
	r := rec("C11")
	defer r.Flush()
	replayCorpus(t, r, "C11")
	rapid.Check(t, func(t *rapid.T) {
		mode := rapid.SampledFrom([]string{"degree", "syllable", "syllable"}).Draw(t, "mode")
		key := rapid.SampledFrom(theory.ListedKeys).Draw(t, "key")
		o := ProgOpts{MaxItems: pick(6, 14), Syllable: mode == "syllable", MaxNum: 13, KeyChanges: 12, Settings: 10, Texts: 25, RestPct: 20, ExoticSyms: true}
		ps := genProgression(o, key).Draw(t, "prog")
		var sent []SItem
		if mode == "degree" {
			sent = DegreeSentence(ps)
		} else {
			s, ok := SyllableSentence(ps, key)
			if !ok {
				t.Fatalf("harness: progression not expressible in %s", key)
			}
			sent = s
		}
		canonText := Render(sent, canonStyle{})
		st := &rapidStyle{t: t, trivia: coin(t, "trivia", 80), us: coin(t, "us", 60), zeros: coin(t, "zeros", 60), uni: coin(t, "uni", 60), nEdits: map[string]int{}}
		variant := Render(sent, st)
		kinds := []string{}
		for k := range st.nEdits {
			kinds = append(kinds, k)
		}
		c := C11Case{Mode: mode, Key: key, Canon: canonText, Variant: variant}
		classes := []string{"mode:" + mode}
		for _, k := range []string{"trivia", "comment", "underscore", "zeros", "unicode-accidental"} {
			if st.nEdits[k] > 0 {
				classes = append(classes, "edit:"+k)
				c.Edits += k + " "
			}
		}
		r.Case(mode+key+variant, len(kinds) >= 2 && variant != canonText, classes...)
		r.Sample(map[string]any{"mode": mode, "key": key, "canonical": canonText, "variant": variant})
		r.Check(t, checkC11(c), "c11", c)
		if len(sent) >= 2 && coin(t, "megabyte-of-remarks", 1) && rapid.Bool().Draw(t, "megabyte-really") {
			// more than 1 MiB of comment lines between two chords: still the same piece (no size limit is documented)
			k := rapid.IntRange(1, len(sent)-1).Draw(t, "remarks-at")
			block := strings.Repeat("; remark about the next bar, nothing a parser reads\n", 21000+rapid.IntRange(0, 3000).Draw(t, "remark-lines"))
			hc := C11Case{Mode: mode, Key: key, Canon: canonText, Variant: Render(sent[:k], canonStyle{}) + "\n" + block + Render(sent[k:], canonStyle{}), Edits: "comment "}
			r.Case(fmt.Sprintf("huge%s%s%d:%d:%s", mode, key, k, len(block), canonText), true, "mode:"+mode, "edit:comment", "variant>1MiB")
			r.Check(t, checkC11(hc), "c11", hc)
		}
	})
}
