module verifharness

go 1.24.0

require (
	github.com/berquerant/crd v0.0.0
	gopkg.in/yaml.v3 v3.0.1
	pgregory.net/rapid v1.3.0
)

require github.com/berquerant/ybase v0.7.0

require gitlab.com/gomidi/midi/v2 v2.2.19 // indirect

replace github.com/berquerant/crd => /repo
