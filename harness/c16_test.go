package harness

import (
	"bytes"
	"fmt"
	"os"
	"path/filepath"
	"sort"
	"strings"
	"testing"

	"gopkg.in/yaml.v3"
	"pgregory.net/rapid"
	"verifharness/theory"
)

// C16 - the chord dictionary means what chord symbols mean, and is safely extensible.

type UAttr struct {
	Name string `json:"name"`
	IV   IV     `json:"iv"`
}

type UChord struct {
	Name    string   `json:"name"`
	Display string   `json:"display"`
	Attrs   []string `json:"attrs,omitempty"`
	Extends string   `json:"extends,omitempty"`
}

type Dict struct {
	AttrFiles  [][]UAttr  `json:"attr_files"`
	ChordFiles [][]UChord `json:"chord_files"`
	BlankAttr  *string    `json:"blank_attr,omitempty"`  // one more --attr file that defines nothing: its whole content (empty, blank lines, comments, [])
	BlankChord *string    `json:"blank_chord,omitempty"` // the same for --chord
	RevNames   bool       `json:"rev_names,omitempty"` // the files are named so that the order on the command line is the reverse of the alphabetical order of their paths
}

func (d Dict) fileName(kind string, i int) string {
	if d.RevNames {
		return fmt.Sprintf("%c-%s.yml", 'z'-byte(i%26), kind)
	}
	return fmt.Sprintf("%s%d.yml", kind, i)
}

func attrYAML(as []UAttr) string {
	var sb strings.Builder
	for _, a := range as {
		if a.Name != "" {
			sb.WriteString(fmt.Sprintf("- name: %s\n  degree: %s\n", yq(a.Name), yq(a.IV.T().Notation())))
		} else {
			sb.WriteString(fmt.Sprintf("- degree: %s\n", yq(a.IV.T().Notation())))
		}
	}
	if len(as) == 0 {
		sb.WriteString("[]\n")
	}
	return sb.String()
}

func chordYAML(cs []UChord) string {
	var sb strings.Builder
	for _, c := range cs {
		if c.Display == "" && c.Name != "" && c.Name != "MajorTriad" {
			// the display symbol was forgotten altogether
			sb.WriteString("- name: " + yq(c.Name) + "\n")
		} else {
			sb.WriteString("- meta: {display: " + yq(c.Display) + "}\n")
			if c.Name != "" {
				sb.WriteString("  name: " + yq(c.Name) + "\n")
			}
		}
		if len(c.Attrs) > 0 {
			sb.WriteString("  attributes: [")
			for i, a := range c.Attrs {
				if i > 0 {
					sb.WriteString(", ")
				}
				sb.WriteString(yq(a))
			}
			sb.WriteString("]\n")
		}
		if c.Extends != "" {
			sb.WriteString("  extends: " + yq(c.Extends) + "\n")
		}
	}
	if len(cs) == 0 {
		sb.WriteString("[]\n")
	}
	return sb.String()
}

// files and flags for a dictionary
func (d Dict) filesAndArgs() (map[string]string, []string) {
	files := map[string]string{}
	var args []string
	var an, cn []string
	for i, f := range d.AttrFiles {
		n := d.fileName("attr", i)
		files[n] = attrYAML(f)
		an = append(an, "@"+n)
	}
	for i, f := range d.ChordFiles {
		n := d.fileName("chord", i)
		files[n] = chordYAML(f)
		cn = append(cn, "@"+n)
	}
	if d.BlankAttr != nil {
		files["attr-later.yml"] = *d.BlankAttr
		an = append(an, "@attr-later.yml")
	}
	if d.BlankChord != nil {
		files["chord-later.yml"] = *d.BlankChord
		cn = append([]string{"@chord-later.yml"}, cn...)
	}
	// one flag with a comma list, or repeated flags: alternate
	if len(an) > 0 {
		if len(an)%2 == 0 {
			args = append(args, "--attr", strings.Join(an, ","))
		} else {
			for _, a := range an {
				args = append(args, "--attr", a)
			}
		}
	}
	if len(cn) > 0 {
		if len(cn)%2 == 1 && len(cn) > 1 {
			args = append(args, "--chord", strings.Join(cn, ","))
		} else {
			for _, a := range cn {
				args = append(args, "--chord", a)
			}
		}
	}
	return files, args
}

// model: last definition wins by name; tones = parent's (recursively) then own.
func (d Dict) tones(name string) ([]int, bool) {
	attrs := map[string]int{}
	for _, f := range d.AttrFiles {
		for _, a := range f {
			attrs[a.Name] = a.IV.T().Semis()
		}
	}
	chords := map[string]UChord{}
	for _, f := range d.ChordFiles {
		for _, c := range f {
			chords[c.Name] = c
			chords[c.Display] = c
		}
	}
	var rec func(n string, depth int) ([]int, bool)
	rec = func(n string, depth int) ([]int, bool) {
		if depth > 20 {
			return nil, false
		}
		c, ok := chords[n]
		if !ok {
			// a built-in, by long name or display
			for disp, long := range theory.LongNames {
				if long == n || disp == n {
					return append([]int{}, theory.ChordTable[disp]...), true
				}
			}
			return nil, false
		}
		var r []int
		if c.Extends != "" {
			p, ok := rec(c.Extends, depth+1)
			if !ok {
				return nil, false
			}
			r = append(r, p...)
		}
		for _, a := range c.Attrs {
			if s, ok := attrs[a]; ok {
				r = append(r, s)
			} else if iv, ok := theory.AttrEnglish(a); ok {
				r = append(r, iv.Semis())
			} else {
				return nil, false
			}
		}
		return r, true
	}
	return rec(name, 0)
}

type C16Case struct {
	Kind    string   `json:"kind"` // builtin | attrs | user | bad
	Sym     string   `json:"sym,omitempty"`
	Dict    *Dict    `json:"dict,omitempty"`
	Use     string   `json:"use,omitempty"`     // chord symbol the piece plays
	Seq     []string `json:"seq,omitempty"`     // user: several chords in one piece (resolution must not depend on what was played before)
	AsText  bool     `json:"as_text,omitempty"` // user: the piece is written as chord text (`1_sym[1] ...`) and converted first
	Bad     string   `json:"bad,omitempty"`     // kind of inconsistency
	Command string   `json:"command,omitempty"` // for bad: which resolving command
}

func oneChordDoc(name string) string {
	return fmt.Sprintf("- values: [\"1\"]\n  chord: {degree: \"1\", name: %s}\n", yq(name))
}

func soundedTones(b []byte) ([]int, error) {
	_, song, err := decode(b)
	if err != nil {
		return nil, err
	}
	if len(song.Tracks) != 1 {
		return nil, fmt.Errorf("%d tracks", len(song.Tracks))
	}
	g := noteGroups(song.Tracks[0])
	if len(g) != 1 {
		return nil, fmt.Errorf("%d chords sounded", len(g))
	}
	// first note-on is the bass (root - 12 for a unison bass); the rest are the tones
	var r []int
	seenBass := false
	for _, p := range g[0] {
		if !seenBass && p == 48 {
			seenBass = true
			continue
		}
		r = append(r, p-60)
	}
	if !seenBass {
		return nil, fmt.Errorf("no bass note 48 in %v", g[0])
	}
	sort.Ints(r)
	return r, nil
}

func checkC16(c C16Case) *Violation {
	switch c.Kind {
	case "builtin":
		long := theory.LongNames[c.Sym]
		a := crd(oneChordDoc(c.Sym), "write")
		b := crd(oneChordDoc(long), "write")
		for _, x := range []Result{a, b} {
			if v := cleanOutcome(x); v != nil {
				return v
			}
		}
		if a.Exit != 0 || b.Exit != 0 {
			return vio("builtin-unknown", "built-in chord %q / %s is not playable: %s %s", c.Sym, long, firstLines(a.Stderr, 1), firstLines(b.Stderr, 1))
		}
		if !bytes.Equal(a.Stdout, b.Stdout) {
			return vio("name-vs-display", "chord %q and its long name %s give different MIDI files", c.Sym, long)
		}
		got, err := soundedTones(a.Stdout)
		if err != nil {
			return vio("builtin-output", "%q: %v", c.Sym, err)
		}
		want := sortedInts(theory.ChordTable[c.Sym])
		if !eqInts(got, want) {
			return vio("builtin-tones", "chord symbol %q sounds %v above its root, conventionally %v", c.Sym, got, want)
		}
		tgt := "C" + c.Sym
		if c.Sym != "" && needsUnderscore(c.Sym) {
			tgt = "C_" + c.Sym
		}
		d1 := crd("", "info", "chord", "describe", "-t", tgt)
		ltgt := "C" + long
		if needsUnderscore(long) {
			ltgt = "C_" + long
		}
		d2 := crd("", "info", "chord", "describe", "-t", ltgt)
		if d1.Exit != 0 || d2.Exit != 0 || !bytes.Equal(d1.Stdout, d2.Stdout) {
			return vio("name-vs-display", "info chord describe -t %s and -t %s differ (exit %d/%d)", tgt, ltgt, d1.Exit, d2.Exit)
		}
	case "attrs":
		list := crd("", "info", "attr", "list")
		gen := crd("", "gen", "attr", "-d", "20")
		if list.Exit != 0 || gen.Exit != 0 {
			return vio("attr-commands", "info attr list / gen attr fail: %s %s", list.Stderr, gen.Stderr)
		}
		// the command as it is typed, without -d: the embedded list is what it generates
		if plain := crd("", "gen", "attr"); plain.Exit != 0 || !bytes.Equal(plain.Stdout, gen.Stdout) {
			return vio("gen-attr-default", "`crd gen attr` (exit %d, %d bytes) is not the list `crd gen attr -d 20` prints (%d bytes), which is the embedded one", plain.Exit, len(plain.Stdout), len(gen.Stdout))
		}
		parse := func(b []byte) ([][2]string, error) {
			var l []map[string]any
			if err := yaml.Unmarshal(b, &l); err != nil {
				return nil, err
			}
			var r [][2]string
			for _, m := range l {
				n, _ := m["name"].(string)
				d, _ := m["degree"].(string)
				r = append(r, [2]string{n, d})
			}
			return r, nil
		}
		la, err1 := parse(list.Stdout)
		lg, err2 := parse(gen.Stdout)
		if err1 != nil || err2 != nil {
			return vio("attr-output", "%v %v", err1, err2)
		}
		repo := os.Getenv("VERIF_REPO")
		if repo == "" {
			repo = "/repo"
		}
		fb, err := os.ReadFile(filepath.Join(repo, "chord", "attribute.yml"))
		if err != nil {
			return vio("harness", "%v", err)
		}
		lf, err := parse(fb)
		if err != nil {
			return vio("attr-file", "chord/attribute.yml: %v", err)
		}
		if fmt.Sprint(la) != fmt.Sprint(lg) || fmt.Sprint(la) != fmt.Sprint(lf) {
			return vio("attr-lists-differ", "embedded list (%d entries), info attr list (%d) and gen attr -d 20 (%d) are not the same list", len(lf), len(la), len(lg))
		}
		if len(la) < 40 {
			return vio("attr-list-short", "only %d built-in attributes", len(la))
		}
		for _, e := range la {
			iv, ok := theory.AttrEnglish(e[0])
			if !ok || !iv.Exists() {
				return vio("attr-name", "attribute %q is not an interval name", e[0])
			}
			got, ok := theory.ReadNotation(e[1])
			if !ok || got != iv {
				return vio("attr-meaning", "attribute %s is defined as %q = %v, its English name says %v", e[0], e[1], got, iv)
			}
		}
	case "user":
		files, args := c.Dict.filesAndArgs()
		seq := c.Seq
		if len(seq) == 0 {
			seq = []string{c.Use}
		}
		var doc strings.Builder
		for _, u := range seq {
			doc.WriteString(oneChordDoc(u))
		}
		piece := doc.String()
		if c.AsText {
			var tx strings.Builder
			for _, u := range seq {
				tx.WriteString("1_" + u + "[1] ")
			}
			conv := crd(tx.String(), "text", "conv", "degree")
			if v := cleanOutcome(conv); v != nil {
				return v
			}
			if conv.Exit != 0 {
				return vio("user-text-refused", "text conv degree refuses %q: %s", tx.String(), firstLines(conv.Stderr, 2))
			}
			piece = string(conv.Stdout)
		}
		res := Run{Argv: append([]string{"write"}, args...), Stdin: piece, Files: files}.Exec()
		if v := cleanOutcome(res); v != nil {
			return v
		}
		ctx := fmt.Sprintf("\nargs %v\npiece plays %q (as chord text: %v)\n%s", args, seq, c.AsText, dumpFiles(files))
		if res.Exit != 0 {
			return vio("user-chord-refused", "a consistent user dictionary is refused when playing %q: %s%s", seq, firstLines(res.Stderr, 2), ctx)
		}
		_, song, err := decode(res.Stdout)
		if err != nil || len(song.Tracks) != 1 {
			return vio("user-output", "%v%s", err, ctx)
		}
		groups := noteGroups(song.Tracks[0])
		if len(groups) != len(seq) {
			return vio("user-output", "%d chords written, %d sounded%s", len(seq), len(groups), ctx)
		}
		for k, u := range seq {
			want, ok := c.Dict.tones(u)
			if !ok {
				return vio("harness", "model cannot resolve %s", u)
			}
			// first note-on is the bass (48 for a unison bass on degree 1 in C); the rest are the tones
			g := groups[k]
			if len(g) == 0 || g[0] != 48 {
				return vio("user-output", "chord %d (%q): no bass note 48 in %v%s", k, u, g, ctx)
			}
			var got []int
			for _, p := range g[1:] {
				got = append(got, p-60)
			}
			if !eqInts(sortedInts(got), sortedInts(want)) {
				return vio("user-chord-tones", "chord %d of the piece, %q, sounds %v above the root; its definition (parents first, then own attributes) gives %v%s", k, u, sortedInts(got), sortedInts(want), ctx)
			}
		}
	case "shared-display":
		// a user chord with a fresh long name takes over the display symbol of a built-in: the symbol now means the
		// user chord, the built-in's long name still means the built-in - on the describe route and on the write route
		d := Dict{ChordFiles: [][]UChord{{{Name: "JazzSeventh", Display: "7", Attrs: []string{"Perfect1", "Major3", "Perfect5", "Minor7", "Major9"}}}}}
		files, args := d.filesAndArgs()
		for _, tc := range []struct {
			target string
			want   []int
		}{{"C_DominantSeventh", []int{0, 4, 7, 10}}, {"C_7", []int{0, 4, 7, 10, 14}}, {"C_JazzSeventh", []int{0, 4, 7, 10, 14}}, {"C_9", []int{0, 4, 7, 10, 14}}} {
			res := Run{Argv: append([]string{"info", "chord", "describe", "-t", tc.target}, args...), Files: files}.Exec()
			if v := cleanOutcome(res); v != nil {
				return v
			}
			if res.Exit != 0 {
				return vio("user-chord-refused", "info chord describe -t %s with a user chord sharing the display symbol 7: %s", tc.target, firstLines(res.Stderr, 2))
			}
			var doc map[string]any
			if err := yaml.Unmarshal(res.Stdout, &doc); err != nil {
				return vio("describe-output", "%v", err)
			}
			var got []int
			var walk func(x any)
			walk = func(x any) {
				switch v := x.(type) {
				case map[string]any:
					if sv, ok := v["semitone"]; ok {
						if n, ok := sv.(int); ok {
							got = append(got, n)
						}
					}
					for _, y := range v {
						walk(y)
					}
				case []any:
					for _, y := range v {
						walk(y)
					}
				}
			}
			walk(doc)
			if !eqInts(sortedInts(got), tc.want) {
				return vio("describe-chord-tones", "info chord describe -t %s (JazzSeventh = 0-4-7-10-14 shares the display symbol 7) lists the sizes %v, expected %v", tc.target, sortedInts(got), tc.want)
			}
		}
	case "override-root":
		// the root of the built-in forest redefined by its long name, keeping its empty display symbol (allowed:
		// "except major triad"): the last definition wins, and everything that extends it inherits the new notes
		d := Dict{ChordFiles: [][]UChord{{{Name: "MajorTriad", Display: "", Attrs: []string{"Perfect1", "Major3", "Perfect5", "Perfect8"}}}}}
		files, args := d.filesAndArgs()
		seq := []string{"", "MajorTriad", "7", "maj7", "m", "sus4"}
		want := [][]int{{0, 4, 7, 12}, {0, 4, 7, 12}, {0, 4, 7, 10, 12}, {0, 4, 7, 11, 12}, {0, 3, 7}, {0, 5, 7}}
		var doc strings.Builder
		for _, u := range seq {
			doc.WriteString(oneChordDoc(u))
		}
		res := Run{Argv: append([]string{"write"}, args...), Stdin: doc.String(), Files: files}.Exec()
		if v := cleanOutcome(res); v != nil {
			return v
		}
		ctx := fmt.Sprintf("\nargs %v\npiece plays %q\n%s", args, seq, dumpFiles(files))
		if res.Exit != 0 {
			return vio("user-chord-refused", "a dictionary that redefines MajorTriad (display \"\") is refused: %s%s", firstLines(res.Stderr, 2), ctx)
		}
		_, song, err := decode(res.Stdout)
		if err != nil || len(song.Tracks) != 1 {
			return vio("user-output", "%v%s", err, ctx)
		}
		groups := noteGroups(song.Tracks[0])
		if len(groups) != len(seq) {
			return vio("user-output", "%d chords written, %d sounded%s", len(seq), len(groups), ctx)
		}
		for k := range seq {
			var got []int
			for _, p := range groups[k][1:] {
				got = append(got, p-60)
			}
			if !eqInts(sortedInts(got), want[k]) {
				return vio("user-chord-tones", "chord %d of the piece, %q, sounds %v above the root; with MajorTriad redefined as 0-4-7-12 it is %v%s", k, seq[k], sortedInts(got), want[k], ctx)
			}
		}
	case "attr-only":
		// attributes given with --attr alone (no --chord file) are known to the info commands
		files, args := c.Dict.filesAndArgs()
		ctx := fmt.Sprintf("\nargs %v\n%s", args, dumpFiles(files))
		list := Run{Argv: append([]string{"info", "attr", "list"}, args...), Files: files}.Exec()
		if v := cleanOutcome(list); v != nil {
			return v
		}
		if list.Exit != 0 {
			return vio("attr-only-refused", "info attr list refuses a consistent --attr dictionary: %s%s", firstLines(list.Stderr, 2), ctx)
		}
		var l []map[string]any
		if err := yaml.Unmarshal(list.Stdout, &l); err != nil {
			return vio("attr-output", "%v", err)
		}
		for _, f := range c.Dict.AttrFiles {
			for _, a := range f {
				found := false
				for _, m := range l {
					if n, _ := m["name"].(string); n == a.Name {
						found = true
					}
				}
				if !found {
					return vio("attr-only-missing", "user attribute %s given with --attr is not in `info attr list`%s", a.Name, ctx)
				}
			}
		}
		// last definition wins; describe the last user attribute on C
		lastFile := c.Dict.AttrFiles[len(c.Dict.AttrFiles)-1]
		a := lastFile[len(lastFile)-1]
		want := a.IV.T().Semis()
		for _, f := range c.Dict.AttrFiles {
			for _, x := range f {
				if x.Name == a.Name {
					want = x.IV.T().Semis()
				}
			}
		}
		d := Run{Argv: append([]string{"info", "attr", "describe", "-t", a.Name, "-r", "C"}, args...), Files: files}.Exec()
		if v := cleanOutcome(d); v != nil {
			return v
		}
		if d.Exit != 0 {
			return vio("attr-only-unknown", "info attr describe -t %s fails although --attr defines it: %s%s", a.Name, firstLines(d.Stderr, 2), ctx)
		}
		var m map[string]any
		if err := yaml.Unmarshal(d.Stdout, &m); err != nil {
			return vio("attr-output", "%v", err)
		}
		if got, _ := m["semitone"].(int); got != want {
			return vio("attr-only-size", "user attribute %s measures %d semitones, its definition says %d%s", a.Name, got, want, ctx)
		}
	case "bad":
		files, args := c.Dict.filesAndArgs()
		var run Run
		switch c.Command {
		case "write":
			run = Run{Argv: append([]string{"write"}, args...), Stdin: oneChordDoc(c.Use), Files: files}
		case "write-event":
			run = Run{Argv: append([]string{"write", "event"}, args...), Stdin: oneChordDoc(c.Use), Files: files}
		case "chord-describe":
			tgt := "C" + c.Use
			if c.Use != "" && needsUnderscore(c.Use) {
				tgt = "C_" + c.Use
			}
			run = Run{Argv: append([]string{"info", "chord", "describe", "-t", tgt}, args...), Files: files}
		case "attr-describe":
			run = Run{Argv: append([]string{"info", "attr", "describe", "-t", "Major3"}, args...), Files: files}
		}
		res := run.Exec()
		ctx := fmt.Sprintf("\ncrd %s\n%s", strings.Join(run.Argv, " "), dumpFiles(files))
		if v := cleanOutcome(res); v != nil {
			v.Sig = "bad-dict-" + c.Bad + ":" + v.Sig
			v.Msg += ctx
			return v
		}
		if res.Exit == 0 {
			return vio("bad-dict-accepted:"+c.Bad, "an inconsistent dictionary (%s) is accepted by `%s`%s", c.Bad, c.Command, ctx)
		}
	}
	return nil
}

func dumpFiles(files map[string]string) string {
	var names []string
	for n := range files {
		names = append(names, n)
	}
	sort.Strings(names)
	var sb strings.Builder
	for _, n := range names {
		sb.WriteString("--- " + n + "\n" + files[n])
	}
	return sb.String()
}

func init() { reg("c16", checkC16) }

var badDictKinds = []string{"dangling-attribute", "dangling-extends", "cycle-1", "cycle-2", "cycle-3", "lasso-1", "lasso-2", "lasso-display", "cycle-via-display", "extends-names-an-attribute", "attribute-names-a-chord", "attribute-names-a-display", "dangling-extends-name-is-display", "dangling-attribute-name-is-display", "cycle-name-is-display", "unnamed-chord", "unnamed-attribute", "chord-without-display", "alias-without-display", "unnamed-chord-before-others", "unnamed-attribute-before-others", "shadowed-dangling-attribute", "shadowed-dangling-extends"}

// badDictExtra returns the entries that make a dictionary inconsistent in the given way.
func badDictExtra(bad string) ([]UChord, []UAttr) {
	switch bad {
	case "dangling-attribute":
		return []UChord{{Name: "BadA", Display: "bada", Attrs: []string{"Perfect1", "NoSuchAttribute"}}}, nil
	case "dangling-extends":
		return []UChord{{Name: "BadE", Display: "bade", Attrs: []string{"Perfect1"}, Extends: "NoSuchChord"}}, nil
	case "cycle-1":
		return []UChord{{Name: "Cyc1", Display: "cyc1", Attrs: []string{"Perfect1"}, Extends: "Cyc1"}}, nil
	case "cycle-2":
		return []UChord{{Name: "Cyc1", Display: "cyc1", Attrs: []string{"Perfect1"}, Extends: "Cyc2"}, {Name: "Cyc2", Display: "cyc2", Extends: "Cyc1"}}, nil
	case "cycle-3":
		return []UChord{{Name: "Cyc1", Display: "cyc1", Extends: "Cyc2"}, {Name: "Cyc2", Display: "cyc2", Attrs: []string{"Major3"}, Extends: "Cyc3"}, {Name: "Cyc3", Display: "cyc3", Extends: "Cyc1"}}, nil
	case "lasso-1": // a chord outside the cycle leads into it
		return []UChord{{Name: "Lead", Display: "lead", Attrs: []string{"Major3"}, Extends: "Cyc1"}, {Name: "Cyc1", Display: "cyc1", Attrs: []string{"Perfect1"}, Extends: "Cyc1"}}, nil
	case "lasso-2":
		return []UChord{{Name: "Lead", Display: "lead", Extends: "Mid"}, {Name: "Mid", Display: "mid", Attrs: []string{"Perfect5"}, Extends: "Cyc1"}, {Name: "Cyc1", Display: "cyc1", Extends: "Cyc2"}, {Name: "Cyc2", Display: "cyc2", Attrs: []string{"Perfect1"}, Extends: "Cyc1"}}, nil
	case "lasso-display": // the link into the cycle goes through a display symbol
		return []UChord{{Name: "Lead", Display: "lead", Attrs: []string{"Major3"}, Extends: "cyc1"}, {Name: "Cyc1", Display: "cyc1", Attrs: []string{"Perfect1"}, Extends: "cyc1"}}, nil
	case "cycle-via-display":
		return []UChord{{Name: "CycA", Display: "cyca", Attrs: []string{"Perfect1"}, Extends: "cycb"}, {Name: "CycB", Display: "cycb", Extends: "cyca"}}, nil
	case "extends-names-an-attribute": // dangling in its own namespace, although the name exists in the other one
		return []UChord{{Name: "BadX", Display: "badx", Attrs: []string{"Perfect1"}, Extends: "Major7"}}, nil
	case "attribute-names-a-chord":
		return []UChord{{Name: "BadY", Display: "bady", Attrs: []string{"Perfect1", "MajorTriad"}}}, nil
	case "attribute-names-a-display":
		return []UChord{{Name: "BadZ", Display: "badz", Attrs: []string{"Perfect1", "m7"}}}, nil
	case "dangling-extends-name-is-display": // a chord registered under one key only (name == display)
		return []UChord{{Name: "pow", Display: "pow", Attrs: []string{"Perfect1"}, Extends: "NoSuchChord"}}, nil
	case "dangling-attribute-name-is-display":
		return []UChord{{Name: "pox", Display: "pox", Attrs: []string{"Perfect1", "NoSuchAttribute"}}}, nil
	case "cycle-name-is-display":
		return []UChord{{Name: "cyx", Display: "cyx", Attrs: []string{"Perfect1"}, Extends: "cyy"}, {Name: "cyy", Display: "cyy", Extends: "cyx"}}, nil
	case "unnamed-chord":
		return []UChord{{Name: "", Display: "noname", Attrs: []string{"Perfect1"}}}, nil
	case "chord-without-display": // named, but without the symbol it would be written with: it must not take over the empty symbol (the major triad)
		return []UChord{{Name: "NoDisplay", Display: "", Attrs: []string{"Perfect1", "Major2", "Perfect5"}}}, nil
	case "alias-without-display":
		return []UChord{{Name: "NoDisplayAlias", Display: "", Extends: "DominantSeventh"}}, nil
	case "unnamed-chord-before-others": // the verdict on a file is not the verdict on its last entry
		return []UChord{{Name: "", Display: "noname", Attrs: []string{"Perfect1", "Minor2"}}, {Name: "FineAfter", Display: "fineafter", Attrs: []string{"Perfect1", "Perfect5"}}}, nil
	case "unnamed-attribute-before-others":
		return nil, []UAttr{{Name: "", IV: IV{3, int(theory.Major)}}, {Name: "FineAttrAfter", IV: IV{6, int(theory.Minor)}}}
	case "shadowed-dangling-attribute": // the name is defined again later, but the first entry stays reachable by its own display symbol
		return []UChord{{Name: "TwiceDefined", Display: "tw1", Attrs: []string{"Perfect1", "NoSuchAttribute"}}, {Name: "TwiceDefined", Display: "tw2", Attrs: []string{"Perfect1", "Major3"}}}, nil
	case "shadowed-dangling-extends":
		return []UChord{{Name: "TwiceDefined", Display: "tw1", Attrs: []string{"Perfect1"}, Extends: "NoSuchChord"}, {Name: "TwiceDefined", Display: "tw2", Attrs: []string{"Perfect1", "Perfect4"}}}, nil
	case "unnamed-attribute":
		return nil, []UAttr{{Name: "", IV: IV{3, int(theory.Major)}}}
	}
	return nil, nil
}

// overridable built-ins: nothing else builds on them
var leafBuiltins = []string{"sus2", "add9", "6", "m6", "7sus4", "mM9", "m9", "maj9", "maj7", "augM7", "dim7", "m7b5"}

func genDict(t *rapid.T) (Dict, []string) {
	var d Dict
	var attrNames []string
	na := rapid.IntRange(0, 6).Draw(t, "nattr")
	var attrs []UAttr
	for i := 0; i < na; i++ {
		a := UAttr{IV: genInterval(20).Draw(t, "aiv")}
		if coin(t, "override-attr", 20) {
			// a built-in name no built-in chord uses
			a.Name = rapid.SampledFrom([]string{"Major13", "Augmented11", "Minor13", "Perfect12", "Diminished12", "Major10"}).Draw(t, "oname")
		} else {
			a.Name = fmt.Sprintf("U%s%d", rapid.StringMatching(`[A-Za-z]{1,5}`).Draw(t, "aname"), i)
		}
		attrs = append(attrs, a)
		attrNames = append(attrNames, a.Name)
	}
	builtinAttrs := []string{"Perfect1", "Major3", "Minor3", "Perfect5", "Minor7", "Major7", "Major9", "Perfect4", "Augmented4", "Minor2", "Major6", "Diminished5", "Perfect11", "Minor13"}
	pickAttrs := func() []string {
		n := rapid.IntRange(0, 4).Draw(t, "nown")
		var r []string
		for i := 0; i < n; i++ {
			if len(attrNames) > 0 && rapid.Bool().Draw(t, "user-attr") {
				r = append(r, rapid.SampledFrom(attrNames).Draw(t, "ua"))
			} else {
				r = append(r, rapid.SampledFrom(builtinAttrs).Draw(t, "ba"))
			}
		}
		return r
	}
	nc := rapid.IntRange(1, 8).Draw(t, "nchord")
	var chords []UChord
	var usable []string
	var parents, parentDisplays []string
	for i := 0; i < nc; i++ {
		var c UChord
		if coin(t, "override-chord", 15) {
			disp := rapid.SampledFrom(leafBuiltins).Draw(t, "leaf")
			c = UChord{Name: theory.LongNames[disp], Display: disp}
		} else {
			c = UChord{Name: fmt.Sprintf("User%s%d", rapid.StringMatching(`[A-Za-z]{1,6}`).Draw(t, "cname"), i), Display: fmt.Sprintf("u%d%s", i, rapid.StringMatching(`[a-z+]{0,3}`).Draw(t, "cdisp"))}
			if coin(t, "display-with-unicode-accidental", 15) {
				c.Display += rapid.SampledFrom([]string{"♭9", "♯9", "♯5", "♭5", "é", "Δ"}).Draw(t, "cdisp-uni")
			}
			if coin(t, "name-is-display", 15) {
				c.Name = c.Display
			}
		}
		c.Attrs = pickAttrs()
		if coin(t, "extends", 60) || len(c.Attrs) == 0 {
			byDisplay := coin(t, "parent-by-display", 35)
			if len(parents) > 0 && rapid.Bool().Draw(t, "user-parent") {
				k := rapid.IntRange(0, len(parents)-1).Draw(t, "parent")
				c.Extends = parents[k]
				if byDisplay {
					c.Extends = parentDisplays[k]
				}
			} else {
				bp := rapid.SampledFrom(theory.Displays[1:]).Draw(t, "bparent")
				c.Extends = theory.LongNames[bp]
				if byDisplay {
					c.Extends = bp
				}
			}
		}
		// an overriding chord must not extend something that (transitively) is itself
		if c.Extends == c.Name || c.Extends == c.Display {
			c.Extends = "MajorTriad"
		}
		chords = append(chords, c)
		dup := false
		for _, p := range parents {
			if p == c.Name {
				dup = true
			}
		}
		if !dup {
			parents = append(parents, c.Name)
			parentDisplays = append(parentDisplays, c.Display)
		}
		usable = append(usable, c.Name, c.Display)
	}
	// a later definition of a user chord replaces the earlier one (same name, same display, other tones)
	if len(chords) > 0 && coin(t, "user-chord-redefined-later", 25) {
		k := rapid.IntRange(0, len(chords)-1).Draw(t, "redefined")
		if strings.HasPrefix(chords[k].Name, "User") || strings.HasPrefix(chords[k].Name, "u") {
			nc := UChord{Name: chords[k].Name, Display: chords[k].Display, Attrs: pickAttrs()}
			if len(nc.Attrs) == 0 {
				nc.Attrs = []string{"Perfect1", "Perfect4"}
			}
			chords = append(chords, nc)
		}
	}
	d.RevNames = coin(t, "file-names-in-reverse-alphabetical-order", 40)
	blanks := []string{"", "\n", "# attributes to come\n", "# one\n# two\n\n", "[]\n", "---\n", "--- []\n"}
	if coin(t, "an-attr-file-that-defines-nothing", 10) {
		b := rapid.SampledFrom(blanks).Draw(t, "blank-attr")
		d.BlankAttr = &b
	}
	if coin(t, "a-chord-file-that-defines-nothing", 10) {
		b := rapid.SampledFrom(blanks).Draw(t, "blank-chord")
		d.BlankChord = &b
	}
	// split over files
	split := func(n int) []int {
		if n == 0 {
			return nil
		}
		k := rapid.IntRange(1, 3).Draw(t, "nfiles")
		cuts := make([]int, n)
		for i := range cuts {
			cuts[i] = rapid.IntRange(0, k-1).Draw(t, "file-of")
		}
		sort.Ints(cuts)
		return cuts
	}
	ac := split(len(attrs))
	for i, a := range attrs {
		for len(d.AttrFiles) <= ac[i] {
			d.AttrFiles = append(d.AttrFiles, nil)
		}
		d.AttrFiles[ac[i]] = append(d.AttrFiles[ac[i]], a)
	}
	cc := split(len(chords))
	for i, c := range chords {
		for len(d.ChordFiles) <= cc[i] {
			d.ChordFiles = append(d.ChordFiles, nil)
		}
		d.ChordFiles[cc[i]] = append(d.ChordFiles[cc[i]], c)
	}
	// a dictionary is a set of definitions: the order of the files on the command line and of the entries in a
	// file says nothing about who may extend whom (children may come before their parents)
	if len(d.ChordFiles) >= 2 && coin(t, "children-first-files", 30) {
		for i, j := 0, len(d.ChordFiles)-1; i < j; i, j = i+1, j-1 {
			d.ChordFiles[i], d.ChordFiles[j] = d.ChordFiles[j], d.ChordFiles[i]
		}
	}
	if coin(t, "children-first-in-file", 20) {
		for _, f := range d.ChordFiles {
			for i, j := 0, len(f)-1; i < j; i, j = i+1, j-1 {
				f[i], f[j] = f[j], f[i]
			}
		}
	}
	return d, usable
}

// laterRedefinition: with overriding names, an earlier user chord may extend a
// name that is redefined later; the model resolves by final definition, and so must crd (last wins).
func (d Dict) hasCycle() bool {
	chords := map[string]UChord{}
	for _, f := range d.ChordFiles {
		for _, c := range f {
			chords[c.Name] = c
			chords[c.Display] = c
		}
	}
	for n := range chords {
		seen := map[string]bool{}
		for x := n; x != ""; {
			c, ok := chords[x]
			if !ok {
				break
			}
			if seen[c.Name] {
				return true
			}
			seen[c.Name] = true
			x = c.Extends
		}
	}
	return false
}

func TestC16(t *testing.T) {
	r := rec("C16")
	defer r.Flush()
	replayCorpus(t, r, "C16")
	for i, sym := range theory.Displays {
		if myShare(i) {
			c := C16Case{Kind: "builtin", Sym: sym}
			r.CaseBC(len(theory.ChordTable[sym]) != 3, "builtin-chord")
			r.Check(t, checkC16(c), "c16", c)
		}
	}
	if shardIndex() == 0 {
		c := C16Case{Kind: "attrs"}
		r.CaseBC(true, "builtin-attributes")
		r.Check(t, checkC16(c), "c16", c)
	}
	if shardIndex() == 3 {
		c := C16Case{Kind: "shared-display"}
		r.CaseBC(true, "display-symbol-shared-with-a-built-in")
		r.Check(t, checkC16(c), "c16", c)
	}
	if shardIndex() == 2 {
		c := C16Case{Kind: "override-root"}
		r.CaseBC(true, "major-triad-redefined")
		r.Check(t, checkC16(c), "c16", c)
	}
	r.MarkExhaustive("23 built-in chords by name and display; every built-in attribute; gen attr vs embedded list")
	bads := badDictKinds
	cmds := []string{"write", "write-event", "chord-describe", "attr-describe"}
	rapid.Check(t, func(t *rapid.T) {
		d, usable := genDict(t)
		if d.hasCycle() {
			// an overriding chord extending a chord that extends it: would be an inconsistency; rebuild without overrides is not worth it
			r.Exclude("generated dictionary accidentally cyclic")
			return
		}
		use := rapid.SampledFrom(usable).Draw(t, "use")
		// several chords in one run, with repeats (A B A): what a symbol means must not depend on what was played before
		pool := append([]string{"7", "9", "m7", "6", "MajorSeventh", "dim7"}, usable...)
		seq := []string{use}
		for n := rapid.IntRange(0, 6).Draw(t, "more"); n > 0; n-- {
			if len(seq) >= 2 && coin(t, "repeat-earlier", 40) {
				seq = append(seq, seq[rapid.IntRange(0, len(seq)-2).Draw(t, "earlier")])
			} else {
				seq = append(seq, rapid.SampledFrom(pool).Draw(t, "next"))
			}
		}
		c := C16Case{Kind: "user", Dict: &d, Use: use, Seq: seq, AsText: coin(t, "piece-as-chord-text", 30)}
		inherited := false
		for _, f := range d.ChordFiles {
			for _, ch := range f {
				if (ch.Name == use || ch.Display == use) && ch.Extends != "" {
					inherited = true
				}
			}
		}
		cls := []string{"user-dictionary"}
		if inherited {
			cls = append(cls, "chord-with-inherited-tones")
		}
		if len(d.ChordFiles) > 1 || len(d.AttrFiles) > 1 {
			cls = append(cls, "split-over-several-files")
		}
		files, _ := d.filesAndArgs()
		if len(seq) > 2 {
			cls = append(cls, "several-chords-in-one-run")
		}
		r.Case("U"+fmt.Sprint(seq)+dumpFiles(files), inherited, cls...)
		r.Sample(map[string]any{"plays": seq, "files": files})
		r.Check(t, checkC16(c), "c16", c)

		// attributes alone: --attr without any --chord file
		if len(d.AttrFiles) > 0 && coin(t, "attr-only", 40) {
			ad := Dict{AttrFiles: d.AttrFiles}
			ac := C16Case{Kind: "attr-only", Dict: &ad}
			af, _ := ad.filesAndArgs()
			r.Case("A"+dumpFiles(af), true, "attr-only-dictionary")
			r.Check(t, checkC16(ac), "c16", ac)
		}

		// (c) one inconsistency injected into this valid dictionary
		bad := rapid.SampledFrom(bads).Draw(t, "bad")
		cmd := rapid.SampledFrom(cmds).Draw(t, "cmd")
		bd := Dict{AttrFiles: append([][]UAttr{}, d.AttrFiles...), ChordFiles: append([][]UChord{}, d.ChordFiles...)}
		usesBad := rapid.Bool().Draw(t, "piece-uses-bad-entry")
		played := use
		extra, extraAttrs := badDictExtra(bad)
		if extraAttrs != nil {
			bd.AttrFiles = append(bd.AttrFiles, extraAttrs)
		}
		if extra != nil {
			bd.ChordFiles = append(bd.ChordFiles, extra)
			if usesBad && extra[0].Display != "" {
				played = extra[0].Display
			}
		}
		bc := C16Case{Kind: "bad", Dict: &bd, Use: played, Bad: bad, Command: cmd}
		r.Case("B"+bad+cmd+played+fmt.Sprint(usesBad), true, "inconsistent-dictionary", "bad:"+bad, "cmd:"+cmd)
		r.Check(t, checkC16(bc), "c16", bc)
	})
}
