// Package refparse is an independent tokenizer and recursive-descent
// recogniser for crd's chord-text language, written from the documented
// tokenisation rules and the grammar in input/ast/chords.y. It does not
// import crd.
package refparse

import (
	"strings"
	"unicode"
)

type Tok struct {
	K string // SYL NUM ACC SYM R META and the literal single runes / [ ] { } = , _
	V string
}

func isSymRune(r rune) bool  { return !unicode.IsSpace(r) && !strings.ContainsRune("/[_;=", r) }
func isMetaRune(r rune) bool { return !strings.ContainsRune("{}=,", r) }

// Lex tokenizes s. ok=false means the tokenizer itself refuses the text
// (the only such case: `_` not followed by a symbol).
func Lex(s string) (toks []Tok, ok bool) {
	rs := []rune(s)
	i := 0
	meta := false
	wantSym := false
	for {
		for i < len(rs) && unicode.IsSpace(rs[i]) {
			i++
		}
		if meta && i < len(rs) && isMetaRune(rs[i]) {
			j := i
			for j < len(rs) && isMetaRune(rs[j]) {
				j++
			}
			toks = append(toks, Tok{"META", string(rs[i:j])})
			i = j
			continue
		}
		if wantSym {
			if i < len(rs) && isSymRune(rs[i]) {
				j := i
				for j < len(rs) && isSymRune(rs[j]) {
					j++
				}
				toks = append(toks, Tok{"SYM", string(rs[i:j])})
				i = j
				wantSym = false
				continue
			}
			return toks, false
		}
		if i >= len(rs) {
			return toks, true
		}
		c := rs[i]
		switch {
		case c == ';':
			for i < len(rs) && rs[i] != '\n' {
				i++
			}
			continue
		case strings.ContainsRune("CDEFGAB", c):
			toks = append(toks, Tok{"SYL", string(c)})
		case c == 'R':
			toks = append(toks, Tok{"R", "R"})
		case strings.ContainsRune("/[]=,", c):
			toks = append(toks, Tok{string(c), string(c)})
		case c == '{':
			meta = true
			toks = append(toks, Tok{"{", "{"})
		case c == '}':
			meta = false
			toks = append(toks, Tok{"}", "}"})
		case c == '#' || c == '♯' || c == 'b' || c == '♭':
			toks = append(toks, Tok{"ACC", string(c)})
		case c == '_':
			wantSym = true
			toks = append(toks, Tok{"_", "_"})
		case c >= '0' && c <= '9':
			j := i
			for j < len(rs) && rs[j] >= '0' && rs[j] <= '9' {
				j++
			}
			toks = append(toks, Tok{"NUM", string(rs[i:j])})
			i = j
			continue
		default:
			j := i
			for j < len(rs) && isSymRune(rs[j]) {
				j++
			}
			toks = append(toks, Tok{"SYM", string(rs[i:j])})
			i = j
			continue
		}
		i++
	}
}

// ------------------------------------------------------------------- tree

type Deg struct{ Head, Acc string }
type Val struct {
	Num, Den string
	HasDen   bool
}
type Item struct {
	Rest    bool
	Deg     Deg
	HasSym  bool
	Sym     string
	Bass    *Deg
	Vals    []Val
	Meta    [][2]string
	HasMeta bool
}

type parser struct {
	t      []Tok
	i      int
	ranOut bool // a needed token was missing because the input ended
}

func (p *parser) peek() string {
	if p.i < len(p.t) {
		return p.t[p.i].K
	}
	return "$"
}

func (p *parser) eat(k string) (string, bool) {
	if p.peek() == k {
		v := p.t[p.i].V
		p.i++
		return v, true
	}
	return "", false
}

// need is eat for mandatory tokens; it records whether failure was caused
// by the end of input.
func (p *parser) need(k string) (string, bool) {
	v, ok := p.eat(k)
	if !ok && p.i >= len(p.t) {
		p.ranOut = true
	}
	return v, ok
}

func (p *parser) degree() (Deg, bool) {
	var d Deg
	if v, ok := p.eat("SYL"); ok {
		d.Head = v
	} else if v, ok := p.eat("NUM"); ok {
		d.Head = v
	} else {
		if p.i >= len(p.t) {
			p.ranOut = true
		}
		return d, false
	}
	if v, ok := p.eat("ACC"); ok {
		d.Acc = v
	}
	return d, true
}

func (p *parser) values() ([]Val, bool) {
	var vs []Val
	for {
		n, ok := p.need("NUM")
		if !ok {
			return nil, false
		}
		v := Val{Num: n}
		if _, ok := p.eat("/"); ok {
			d, ok := p.need("NUM")
			if !ok {
				return nil, false
			}
			v.Den, v.HasDen = d, true
		}
		vs = append(vs, v)
		if _, ok := p.eat(","); !ok {
			return vs, true
		}
	}
}

func (p *parser) tail(it *Item) bool {
	if _, ok := p.need("["); !ok {
		return false
	}
	vs, ok := p.values()
	if !ok {
		return false
	}
	it.Vals = vs
	if _, ok := p.need("]"); !ok {
		return false
	}
	if _, ok := p.eat("{"); ok {
		it.HasMeta = true
		for {
			k, ok := p.need("META")
			if !ok {
				return false
			}
			if _, ok := p.need("="); !ok {
				return false
			}
			v, ok := p.need("META")
			if !ok {
				return false
			}
			it.Meta = append(it.Meta, [2]string{k, v})
			if _, ok := p.eat(","); !ok {
				break
			}
		}
		if _, ok := p.need("}"); !ok {
			return false
		}
	}
	return true
}

func (p *parser) item() (Item, bool) {
	var it Item
	if _, ok := p.eat("R"); ok {
		it.Rest = true
		return it, p.tail(&it)
	}
	d, ok := p.degree()
	if !ok {
		return it, false
	}
	it.Deg = d
	if _, ok := p.eat("_"); ok {
		s, ok := p.need("SYM")
		if !ok {
			return it, false
		}
		it.Sym, it.HasSym = s, true
	} else if s, ok := p.eat("SYM"); ok {
		it.Sym, it.HasSym = s, true
	}
	if _, ok := p.eat("/"); ok {
		b, ok := p.degree()
		if !ok {
			return it, false
		}
		it.Bass = &b
	}
	return it, p.tail(&it)
}

type Status int

const (
	Dead   Status = iota // not a prefix of any sentence
	Viable               // a proper prefix of some sentence, not itself one
	Accept               // a sentence
)

func parseTokens(t []Tok) ([]Item, Status) {
	p := &parser{t: t}
	var items []Item
	for p.i < len(p.t) {
		it, ok := p.item()
		if !ok {
			if p.ranOut {
				return nil, Viable
			}
			return nil, Dead
		}
		items = append(items, it)
	}
	if len(items) == 0 {
		return nil, Viable
	}
	return items, Accept
}

// Parse returns the tree of an accepted text, or ok=false.
func Parse(s string) ([]Item, bool) {
	t, ok := Lex(s)
	if !ok {
		return nil, false
	}
	items, st := parseTokens(t)
	return items, st == Accept
}

// Classify says whether s is a sentence, a proper prefix of one, or neither.
func Classify(s string) Status {
	t, ok := Lex(s)
	if !ok {
		// `_` with nothing usable after it. It is a viable prefix iff the
		// text ends right there (modulo whitespace), so that a symbol may
		// still follow, and the tokens so far are a viable prefix.
		t2, ok2 := Lex(s + "x")
		if !ok2 {
			return Dead
		}
		if _, st := parseTokens(t2); st != Dead {
			return Viable
		}
		return Dead
	}
	_ = t
	_, st := parseTokens(t)
	if st == Accept {
		return Accept
	}
	if st == Viable {
		return Viable
	}
	// A dead token sequence can still be a viable *string* prefix when the
	// last token could grow: not possible here, token kinds are decided by
	// their first rune and runs only get longer with the same kind.
	return Dead
}
