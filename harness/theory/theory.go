// Package theory is an independent statement of the music theory crd is
// checked against. It shares no code and no tables with crd.
package theory

import (
	"fmt"
	"strings"
)

// ---------------------------------------------------------------- intervals

type Qual int

const (
	Major Qual = iota
	Minor
	Perfect
	Aug
	Dim
	DAug
	DDim
)

var AllQuals = []Qual{Major, Minor, Perfect, Aug, Dim, DAug, DDim}

func (q Qual) String() string {
	return [...]string{"major", "minor", "perfect", "augmented", "diminished", "doubly-augmented", "doubly-diminished"}[q]
}

type Interval struct {
	Num  int
	Qual Qual
}

var majorSizes = [7]int{0, 2, 4, 5, 7, 9, 11}

// IsPerfectNum: unison, fourth, fifth and their octave compounds.
func IsPerfectNum(n int) bool { s := (n-1)%7 + 1; return s == 1 || s == 4 || s == 5 }

// MajorSize is the size of the major/perfect interval of number n.
func MajorSize(n int) int { return majorSizes[(n-1)%7] + 12*((n-1)/7) }

func (iv Interval) Exists() bool {
	if iv.Num < 1 {
		return false
	}
	p := IsPerfectNum(iv.Num)
	switch iv.Qual {
	case Major, Minor:
		return !p
	case Perfect:
		return p
	case Aug, Dim, DAug, DDim:
		return true
	}
	return false
}

func (iv Interval) Semis() int {
	b := MajorSize(iv.Num)
	p := IsPerfectNum(iv.Num)
	switch iv.Qual {
	case Major, Perfect:
		return b
	case Minor:
		return b - 1
	case Aug:
		return b + 1
	case DAug:
		return b + 2
	case Dim:
		if p {
			return b - 1
		}
		return b - 2
	case DDim:
		if p {
			return b - 2
		}
		return b - 3
	}
	panic("qual")
}

// QualsFor lists the qualities that exist for number n.
func QualsFor(n int) []Qual {
	var r []Qual
	for _, q := range AllQuals {
		if (Interval{n, q}).Exists() {
			r = append(r, q)
		}
	}
	return r
}

var notationPrefix = map[Qual]string{Major: "", Perfect: "", Minor: "b", Aug: "#", Dim: "bb", DAug: "##", DDim: "bbb"}

// Notation prints crd's interval notation (prefix form): "" major/perfect,
// b minor, # augmented, bb diminished, ## doubly augmented, bbb doubly diminished.
func (iv Interval) Notation() string {
	return fmt.Sprintf("%s%d", notationPrefix[iv.Qual], iv.Num)
}

func (iv Interval) String() string { return fmt.Sprintf("%s %d", iv.Qual, iv.Num) }

// ReadNotation reads the documented notation: marks before or after the
// number. A single b means minor, or diminished where no minor exists.
func ReadNotation(s string) (Interval, bool) {
	marks := ""
	digits := ""
	i := 0
	for i < len(s) && (s[i] == 'b' || s[i] == '#') {
		i++
	}
	pre := s[:i]
	j := i
	for j < len(s) && s[j] >= '0' && s[j] <= '9' {
		j++
	}
	digits = s[i:j]
	post := s[j:]
	for _, c := range post {
		if c != 'b' && c != '#' {
			return Interval{}, false
		}
	}
	if digits == "" || (pre != "" && post != "") {
		return Interval{}, false
	}
	marks = pre + post
	n := 0
	for _, c := range digits {
		n = n*10 + int(c-'0')
		if n > 1<<20 {
			return Interval{}, false
		}
	}
	if n < 1 {
		return Interval{}, false
	}
	var q Qual
	switch marks {
	case "":
		if IsPerfectNum(n) {
			q = Perfect
		} else {
			q = Major
		}
	case "b":
		if IsPerfectNum(n) {
			q = Dim
		} else {
			q = Minor
		}
	case "#":
		q = Aug
	case "bb":
		q = Dim
	case "##":
		q = DAug
	case "bbb":
		q = DDim
	default:
		return Interval{}, false
	}
	return Interval{n, q}, true
}

// --------------------------------------------------------------------- notes

var LetterPC = map[byte]int{'C': 0, 'D': 2, 'E': 4, 'F': 5, 'G': 7, 'A': 9, 'B': 11}

const Letters = "CDEFGAB"

type Note struct {
	Letter byte
	Acc    int // -1 flat, 0 natural, +1 sharp
}

func (n Note) String() string {
	s := string(n.Letter)
	switch n.Acc {
	case 1:
		s += "#"
	case -1:
		s += "b"
	case 2:
		s += "##"
	case -2:
		s += "bb"
	}
	return s
}

// Pitch is the pitch offset above C of the note within its octave
// (Cb = -1, B# = 12).
func (n Note) Pitch() int { return LetterPC[n.Letter] + n.Acc }

func LetterIndex(l byte) int { return strings.IndexByte(Letters, l) }

// AllNotes21 lists the 21 spellings letter x {natural, sharp, flat}.
func AllNotes21() []Note {
	var r []Note
	for i := 0; i < 7; i++ {
		for _, a := range []int{0, 1, -1} {
			r = append(r, Note{Letters[i], a})
		}
	}
	return r
}

// ---------------------------------------------------------------------- keys

type Key struct {
	Letter byte
	Acc    int
	Minor  bool
}

var fifthIdx = map[byte]int{'F': -1, 'C': 0, 'G': 1, 'D': 2, 'A': 3, 'E': 4, 'B': 5}

func (k Key) String() string {
	s := Note{k.Letter, k.Acc}.String()
	if k.Minor {
		s += "m"
	}
	return s
}

// Sig is the signed key signature: sharps positive, flats negative.
func (k Key) Sig() int {
	s := fifthIdx[k.Letter] + 7*k.Acc
	if k.Minor {
		s -= 3
	}
	return s
}

// TonicOffset is the tonic's distance above middle C as literally spelled.
func (k Key) TonicOffset() int { return LetterPC[k.Letter] + k.Acc }

func (k Key) Tonic() Note { return Note{k.Letter, k.Acc} }

func ParseKey(s string) Key {
	k := Key{Letter: s[0]}
	r := s[1:]
	if strings.HasSuffix(r, "m") {
		k.Minor = true
		r = r[:len(r)-1]
	}
	switch r {
	case "#":
		k.Acc = 1
	case "b":
		k.Acc = -1
	}
	return k
}

// ListedKeys are the 28 keys the property names.
var ListedKeys = strings.Fields("Cb Gb Db Ab Eb Bb F C G D A E B F# C# Ebm Bbm Fm Cm Gm Dm Am Em Bm F#m C#m G#m D#m")

func IsListed(s string) bool {
	for _, k := range ListedKeys {
		if k == s {
			return true
		}
	}
	return false
}

// AllSpellings42 lists [A-G][#b]?m?.
func AllSpellings42() []string {
	var r []string
	for i := 0; i < 7; i++ {
		for _, a := range []string{"", "#", "b"} {
			for _, m := range []string{"", "m"} {
				r = append(r, string(Letters[i])+a+m)
			}
		}
	}
	return r
}

const sharpOrder = "FCGDAEB"
const flatOrder = "BEADGCF"

// Scale returns the seven notes from the tonic, from the signature.
func (k Key) Scale() [7]Note {
	sig := k.Sig()
	acc := map[byte]int{}
	if sig > 0 {
		for i := 0; i < sig && i < 7; i++ {
			acc[sharpOrder[i]] = 1
		}
	} else {
		for i := 0; i < -sig && i < 7; i++ {
			acc[flatOrder[i]] = -1
		}
	}
	var r [7]Note
	li := LetterIndex(k.Letter)
	for i := 0; i < 7; i++ {
		l := Letters[(li+i)%7]
		r[i] = Note{l, acc[l]}
	}
	return r
}

// ScalePCs returns the set of pitch classes of the key's scale.
func (k Key) ScalePCs() map[int]bool {
	m := map[int]bool{}
	for _, n := range k.Scale() {
		m[((n.Pitch()%12)+12)%12] = true
	}
	return m
}

var MajorSteps = [7]int{2, 2, 1, 2, 2, 2, 1}
var MinorSteps = [7]int{2, 1, 2, 2, 1, 2, 2}

// CirclePos is the position on the circle of fifths, 0..11.
func (k Key) CirclePos() int { return ((k.Sig() % 12) + 12) % 12 }

// KeysAt returns all listed spellings with this circle position and mode.
func KeysAt(pos int, minor bool) []string {
	var r []string
	for _, s := range ListedKeys {
		k := ParseKey(s)
		if k.Minor == minor && k.CirclePos() == ((pos%12)+12)%12 {
			r = append(r, s)
		}
	}
	return r
}

// ConvStep applies one conversion letter (p r d s) to (pos, minor).
func ConvStep(pos int, minor bool, c byte) (int, bool) {
	switch c {
	case 'd':
		return (pos + 1) % 12, minor
	case 's':
		return (pos + 11) % 12, minor
	case 'r':
		return pos, !minor
	case 'p':
		if minor {
			return (pos + 3) % 12, false
		}
		return (pos + 9) % 12, true
	}
	panic("conv")
}

// -------------------------------------------------------------------- chords

// ChordTable: conventional semitone content by display symbol.
var ChordTable = map[string][]int{
	"": {0, 4, 7}, "m": {0, 3, 7}, "dim": {0, 3, 6}, "aug": {0, 4, 8}, "7": {0, 4, 7, 10}, "M7": {0, 4, 7, 11}, "maj7": {0, 4, 7, 11},
	"m7": {0, 3, 7, 10}, "mM7": {0, 3, 7, 11}, "m7b5": {0, 3, 6, 10}, "dim7": {0, 3, 6, 9}, "augM7": {0, 4, 8, 11},
	"9": {0, 4, 7, 10, 14}, "m9": {0, 3, 7, 10, 14}, "M9": {0, 4, 7, 11, 14}, "maj9": {0, 4, 7, 11, 14}, "mM9": {0, 3, 7, 11, 14},
	"sus4": {0, 5, 7}, "7sus4": {0, 5, 7, 10}, "6": {0, 4, 7, 9}, "m6": {0, 3, 7, 9}, "add9": {0, 4, 7, 14}, "sus2": {0, 2, 7},
}

var LongNames = map[string]string{
	"": "MajorTriad", "m": "MinorTriad", "dim": "DiminishedTriad", "aug": "AugmentedTriad", "7": "DominantSeventh", "M7": "MajorSeventh",
	"maj7": "MajorSeventhAlias1", "m7": "MinorSeventh", "mM7": "MinorMajorSeventh", "m7b5": "HalfDiminishedSeventh", "dim7": "DiminishedSeventh",
	"augM7": "AugmentedMajorSeventh", "9": "DominantNinth", "mM9": "MinorMajorNinth", "m9": "MinorNinth", "M9": "MajorNinth", "maj9": "MajorNinthAlias1",
	"sus4": "SuspendedFourth", "7sus4": "SeventhSuspendedFourth", "6": "Sixth", "m6": "MinorSixth", "add9": "AddedNinth", "sus2": "SuspendSecond",
}

var Displays = []string{"", "m", "dim", "aug", "7", "M7", "maj7", "m7", "mM7", "m7b5", "dim7", "augM7", "9", "m9", "M9", "maj9", "mM9", "sus4", "7sus4", "6", "m6", "add9", "sus2"}

// ------------------------------------------------------------------ dynamics

// Dynamics from soft to loud.
var Dynamics = []string{"pp", "p", "mp", "mf", "f", "ff"}

// AttrEnglish parses an attribute name such as "Minor7" or "Augmented11".
func AttrEnglish(name string) (Interval, bool) {
	for pre, q := range map[string]Qual{"Major": Major, "Minor": Minor, "Perfect": Perfect, "Augmented": Aug, "Diminished": Dim} {
		if strings.HasPrefix(name, pre) {
			rest := name[len(pre):]
			n := 0
			if rest == "" {
				return Interval{}, false
			}
			for _, c := range rest {
				if c < '0' || c > '9' {
					return Interval{}, false
				}
				n = n*10 + int(c-'0')
			}
			return Interval{n, q}, true
		}
	}
	return Interval{}, false
}
