package harness

import (
	"bytes"
	"fmt"
	"os"
	"strings"
	"testing"

	"pgregory.net/rapid"
	"verifharness/theory"
)

// C12 - same command, same input, same bytes - on every run and every I/O path.

type C12Case struct {
	Argv     []string          `json:"argv"`
	Input    string            `json:"input"`
	HasInput bool              `json:"has_input"` // the command reads FILE / stdin
	Repeats  int               `json:"repeats"`
	Race     bool              `json:"race,omitempty"`
	Files    map[string]string `json:"files,omitempty"` // user dictionaries referenced from argv as @name
}

func (c C12Case) run(extraArgs []string, mode string, env []string) Result {
	r := Run{Argv: append(append([]string{}, c.Argv...), extraArgs...), Env: env}
	if len(c.Files) > 0 {
		r.Files = map[string]string{}
		for k, v := range c.Files {
			r.Files[k] = v
		}
	}
	switch mode {
	case "stdin":
		r.Stdin = c.Input
	case "dash":
		r.Stdin = c.Input
		r.Argv = append(r.Argv, "-")
	case "file":
		if r.Files == nil {
			r.Files = map[string]string{}
		}
		r.Files["input.txt"] = c.Input
		r.Argv = append(r.Argv, "@input.txt")
	}
	return r.Exec()
}

func sameOutcome(a, b Result) bool {
	return (a.Exit == 0) == (b.Exit == 0) && bytes.Equal(a.Stdout, b.Stdout)
}

func checkC12(c C12Case) *Violation {
	what := "crd " + strings.Join(c.Argv, " ")
	if c.Race {
		bin := os.Getenv("CRD_RACE_BIN")
		if bin == "" {
			return nil
		}
		old := os.Getenv("CRD_BIN")
		os.Setenv("CRD_BIN", bin)
		defer os.Setenv("CRD_BIN", old)
	}
	ref := c.run(nil, "stdin", []string{"GOMAXPROCS=16"})
	if v := cleanOutcome(ref); v != nil {
		if c.Race && strings.Contains(ref.Stderr, "DATA RACE") {
			return vio("data-race", "%s: race detector report\n%s", what, firstLines(ref.Stderr, 30))
		}
		v.Msg = what + ": " + v.Msg
		return v
	}
	ctx := fmt.Sprintf("\ninput: %q", clip(c.Input, 600))
	show := func(r Result) string {
		return fmt.Sprintf("exit %d, %d bytes: %q", r.Exit, len(r.Stdout), clip(string(r.Stdout), 300))
	}
	// 1. repeated runs under different CPU counts
	procs := []string{"1", "2", "16", "4", "3"}
	for i := 0; i < c.Repeats; i++ {
		r := c.run(nil, "stdin", []string{"GOMAXPROCS=" + procs[i%len(procs)]})
		if c.Race && strings.Contains(r.Stderr, "DATA RACE") {
			return vio("data-race", "%s: race detector report\n%s", what, firstLines(r.Stderr, 30))
		}
		if !sameOutcome(ref, r) {
			return vio("run-to-run:"+cmdName(c.Argv), "%s: run %d (GOMAXPROCS=%s) differs from the first run\nfirst: %s\nthis:  %s%s", what, i+2, procs[i%len(procs)], show(ref), show(r), ctx)
		}
	}
	if c.Race {
		return nil
	}
	// 2. --debug must not change stdout or success
	dbg := c.run([]string{"--debug"}, "stdin", nil)
	if dbg.TimedOut || dbg.Crashed() {
		return vio("debug-crash", "%s --debug: crashed or hung: %s", what, firstLines(dbg.Stderr, 5))
	}
	if !sameOutcome(ref, dbg) {
		sig := "debug-changes-output"
		if ref.Exit != 0 && dbg.Exit != 0 && len(ref.Stdout) == 0 && strings.Contains(string(dbg.Stdout), " saw ") {
			sig = "debug-parser-trace-on-stdout"
		}
		return vio(sig, "%s: --debug changes the result\nplain: %s\ndebug: %s%s", what, show(ref), show(dbg), ctx)
	}
	// 3. input paths
	if c.HasInput {
		for _, mode := range []string{"dash", "file"} {
			r := c.run(nil, mode, nil)
			if !sameOutcome(ref, r) {
				return vio("input-path:"+mode, "%s: input as %s differs from stdin\nstdin: %s\n%s: %s%s", what, mode, show(ref), mode, show(r), ctx)
			}
		}
	}
	// 3a. stdin redirected from a regular file, and the FILE argument naming standard input
	if c.HasInput {
		r := Run{Argv: append([]string{}, c.Argv...), Stdin: c.Input, StdinFile: true, Files: c.Files}.Exec()
		if !sameOutcome(ref, r) {
			return vio("input-path:stdin-from-file", "%s: `< file` differs from a pipe\npipe: %s\n< file: %s%s", what, show(ref), show(r), ctx)
		}
		if len(c.Input) > 1 && len(c.Input)%3 == 0 {
			rb := Run{Argv: append([]string{}, c.Argv...), Stdin: c.Input, StdinBursts: true, Files: c.Files}.Exec()
			if !sameOutcome(ref, rb) {
				return vio("input-path:slow-pipe", "%s: the same bytes arriving on the pipe in two bursts give a different result\none write: %s\ntwo bursts: %s%s", what, show(ref), show(rb), ctx)
			}
		}
		r = Run{Argv: append(append([]string{}, c.Argv...), "/dev/stdin"), Stdin: c.Input, Files: c.Files}.Exec()
		if !sameOutcome(ref, r) {
			return vio("input-path:dev-stdin", "%s /dev/stdin differs from reading standard input\nstdin: %s\n/dev/stdin: %s%s", what, show(ref), show(r), ctx)
		}
	}
	// 3a'. standard input may be a regular file of which the caller has read a first part already (a title line),
	// and standard output a regular file that holds something already and is appended to (`>> notes.txt`)
	if c.HasInput && len(c.Input)%4 == 1 {
		skip := "title: the first line belongs to the caller\n"
		r := Run{Argv: append([]string{}, c.Argv...), Stdin: c.Input, StdinSkip: skip, Files: c.Files}.Exec()
		if !sameOutcome(ref, r) {
			return vio("input-path:stdin-at-offset", "%s: reading a regular file from the offset the caller left it at differs from a pipe\npipe: %s\nfile at offset %d: %s%s", what, show(ref), len(skip), show(r), ctx)
		}
	}
	if len(c.Input)%4 == 2 || !c.HasInput {
		pre := "my notes\n"
		r := Run{Argv: append([]string{}, c.Argv...), Stdin: c.Input, StdoutAppend: pre, Files: c.Files}.Exec()
		if (r.Exit == 0) != (ref.Exit == 0) || string(r.Stdout) != pre+string(ref.Stdout) {
			return vio("output-path:append-to-file", "%s >> notes.txt: exit %d (plain run %d); the file holds %d bytes, expected its %d old bytes followed by the %d bytes of the plain run%s", what, r.Exit, ref.Exit, len(r.Stdout), len(pre), len(ref.Stdout), ctx)
		}
	}
	// 3b. an empty input is an empty input, whether it is an empty pipe, an empty file or /dev/null
	if c.HasInput && c.Input == "" {
		r := Run{Argv: append([]string{}, c.Argv...), NoStdin: true}.Exec()
		if !sameOutcome(ref, r) {
			return vio("input-path:devnull", "%s: empty input from /dev/null differs from an empty pipe\npipe: %s\n/dev/null: %s", what, show(ref), show(r))
		}
	}
	// 3c. -o may name the input file itself (annotating a piece in place): the input is read before the output is opened
	if c.HasInput && ref.Exit == 0 && len(c.Input) > 0 {
		files := map[string]string{}
		for k, v := range c.Files {
			files[k] = v
		}
		files["piece.txt"] = c.Input
		r := Run{Argv: append(append([]string{}, c.Argv...), "@piece.txt", "-o", "@piece.txt"), Files: files, OutArg: "piece.txt"}.Exec()
		if r.Exit != 0 || len(r.Stdout) != 0 || !bytes.Equal(r.OutFile, ref.Stdout) {
			return vio("output-path:in-place", "%s FILE -o FILE (same file): exit %d, %d bytes on stdout, file holds %d bytes; the plain run prints %d bytes%s", what, r.Exit, len(r.Stdout), len(r.OutFile), len(ref.Stdout), ctx)
		}
	}
	// 3d. -o may name a special file: /dev/stdout must carry the same bytes, /dev/null the same success
	{
		r := Run{Argv: append(append([]string{}, c.Argv...), "-o", "/dev/stdout"), Stdin: c.Input, Files: c.Files}.Exec()
		if !sameOutcome(ref, r) {
			return vio("output-path:dev-stdout", "%s -o /dev/stdout differs from printing to stdout\nplain: %s\n-o /dev/stdout: %s%s", what, show(ref), show(r), ctx)
		}
		r = Run{Argv: append(append([]string{}, c.Argv...), "-o", "/dev/null"), Stdin: c.Input, Files: c.Files}.Exec()
		if (r.Exit == 0) != (ref.Exit == 0) || len(r.Stdout) != 0 {
			return vio("output-path:dev-null", "%s -o /dev/null: exit %d (plain run: %d), %d bytes on stdout%s", what, r.Exit, ref.Exit, len(r.Stdout), ctx)
		}
	}
	// 4. -o FILE holds exactly the stdout bytes; stdout stays empty
	// the -o path is a fresh file in one run and an existing, longer file (left by "an earlier run") in the other
	ofiles := map[string]string{}
	for k, v := range c.Files {
		ofiles[k] = v
	}
	if len(c.Input)%2 == 0 {
		ofiles["out.bin"] = staleContent
	}
	o := Run{Argv: append(append([]string{}, c.Argv...), "-o", "@out.bin"), Stdin: c.Input, OutArg: "out.bin", Files: ofiles}.Exec()
	if (o.Exit == 0) != (ref.Exit == 0) {
		return vio("output-path", "%s: with -o the command exits %d, without %d%s", what, o.Exit, ref.Exit, ctx)
	}
	if len(o.Stdout) != 0 {
		return vio("output-path", "%s -o FILE still prints %d bytes on stdout%s", what, len(o.Stdout), ctx)
	}
	if ref.Exit == 0 {
		if !o.HasOut || !bytes.Equal(o.OutFile, ref.Stdout) {
			return vio("output-path", "%s: the -o file (%d bytes, present=%v) is not the stdout of the plain run (%d bytes)%s", what, len(o.OutFile), o.HasOut, len(ref.Stdout), ctx)
		}
	} else if o.HasOut && len(o.OutFile) != 0 && string(o.OutFile) != staleContent {
		return vio("output-path", "%s fails but leaves %d bytes in the -o file%s", what, len(o.OutFile), ctx)
	}
	return nil
}

// staleContent is what an earlier, longer result may have left at the -o path.
var staleContent = strings.Repeat("stale output of an earlier run\n", 12000)

func cmdName(argv []string) string {
	var r []string
	for _, a := range argv {
		if strings.HasPrefix(a, "-") {
			break
		}
		r = append(r, a)
	}
	return strings.Join(r, "-")
}

func init() { reg("c12", checkC12) }

// genC12 draws a command with an input it accepts (mostly) or refuses (sometimes).
func genC12(t *rapid.T) C12Case {
	kind := rapid.SampledFrom([]string{"text-parse", "text-conv-degree", "text-conv-syllable", "write", "write-event", "write-parse", "write-conv",
		"info-attr-list", "info-attr-describe", "info-chord-list", "info-chord-describe", "info-key-list", "info-key-describe", "info-key-conv", "gen-attr",
		"dict-write-event", "dict-write", "dict-chord-describe", "dict-chord-list", "dict-attr-list"}).Draw(t, "command")
	key := rapid.SampledFrom(theory.ListedKeys).Draw(t, "key")
	broken := coin(t, "invalid-input", 15)
	var c C12Case
	text := func(syll bool) string {
		o := ProgOpts{MaxItems: 8, Syllable: syll, MaxNum: 9, KeyChanges: 10, Settings: 15, Texts: 30, RestPct: 20, ExoticSyms: true}
		ps := genProgression(o, key).Draw(t, "prog")
		var s string
		// half of the texts are written the way people write them: comments, blank lines, padded numbers, unicode accidentals
		var st Style = canonStyle{}
		if coin(t, "free-spelling", 50) {
			st = &rapidStyle{t: t, trivia: true, us: true, zeros: true, uni: true, nEdits: map[string]int{}}
		}
		if syll {
			ss, _ := SyllableSentence(ps, key)
			s = Render(ss, st)
		} else {
			s = Render(DegreeSentence(ps), st)
		}
		if broken {
			s, _ = mutate(t, s)
		}
		if coin(t, "byte-order-mark", 8) {
			// a file saved with a UTF-8 byte order mark: whatever crd makes of it, it makes the same of it on every path
			s = "\ufeff" + s
		}
		return s
	}
	doc := func() string {
		if coin(t, "empty-document", 6) {
			return rapid.SampledFrom([]string{"", "[]\n", "\n", "# nothing\n"}).Draw(t, "empty-doc")
		}
		d := genDoc(DocOpts{MaxInsts: 8, MaxIvNum: 12, Settings: 20, Meta: 40, RestPct: 25}).Draw(t, "doc")
		y := d.YAML()
		if broken {
			y = strings.Replace(y, "values: [", "values: [\"0\", ", 1)
		}
		if coin(t, "byte-order-mark", 6) {
			y = "\ufeff" + y
		}
		return y
	}
	switch kind {
	case "text-parse":
		c = C12Case{Argv: []string{"text", "parse"}, Input: text(rapid.Bool().Draw(t, "syll")), HasInput: true}
	case "text-conv-degree":
		c = C12Case{Argv: []string{"text", "conv", "degree"}, Input: text(false), HasInput: true}
	case "text-conv-syllable":
		c = C12Case{Argv: []string{"text", "conv", "syllable", "--key", key}, Input: text(true), HasInput: true}
	case "write":
		c = C12Case{Argv: []string{"write", "--track", fmt.Sprint(rapid.IntRange(1, 12).Draw(t, "track"))}, Input: doc(), HasInput: true}
	case "write-event":
		c = C12Case{Argv: []string{"write", "event", "--track", fmt.Sprint(rapid.IntRange(1, 12).Draw(t, "track"))}, Input: doc(), HasInput: true}
	case "write-parse":
		c = C12Case{Argv: []string{"write", "parse"}, Input: doc(), HasInput: true}
	case "write-conv":
		c = C12Case{Argv: []string{"write", "conv", "-c", "cmt"}, Input: doc(), HasInput: true}
	case "info-attr-list":
		c = C12Case{Argv: []string{"info", "attr", "list"}}
	case "info-attr-describe":
		n := rapid.IntRange(1, 20).Draw(t, "n")
		q := rapid.SampledFrom(theory.QualsFor(n)).Draw(t, "q")
		name := map[theory.Qual]string{theory.Major: "Major", theory.Minor: "Minor", theory.Perfect: "Perfect", theory.Aug: "Augmented", theory.Dim: "Diminished", theory.DAug: "Nonexistent", theory.DDim: "Nosuch"}[q]
		c = C12Case{Argv: []string{"info", "attr", "describe", "-t", fmt.Sprintf("%s%d", name, n), "-r", rapid.SampledFrom(theory.AllNotes21()).Draw(t, "root").String()}}
		if rapid.Bool().Draw(t, "sharp") {
			c.Argv = append(c.Argv, "-s")
		}
	case "info-chord-list":
		c = C12Case{Argv: []string{"info", "chord", "list"}}
	case "info-chord-describe":
		sym := rapid.SampledFrom(append([]string{"nosuch"}, theory.Displays...)).Draw(t, "sym")
		tgt := rapid.SampledFrom(theory.AllNotes21()).Draw(t, "root").String()
		if sym != "" && needsUnderscore(sym) {
			tgt += "_"
		}
		tgt += sym
		if broken {
			// not a single chord symbol at all: the failure must be the same with and without --debug
			tgt = rapid.SampledFrom([]string{"C[", "C/", "", "H", "C D", "C_", "]", "Cm/", "C[1]", "1"}).Draw(t, "bad-target")
		}
		c = C12Case{Argv: []string{"info", "chord", "describe", "-t", tgt}}
	case "info-key-list":
		c = C12Case{Argv: []string{"info", "key", "list"}}
	case "info-key-describe":
		c = C12Case{Argv: []string{"info", "key", "describe", "--key", rapid.SampledFrom(theory.AllSpellings42()).Draw(t, "anykey")}}
	case "info-key-conv":
		c = C12Case{Argv: []string{"info", "key", "conv", "--key", key, "-c", rapid.StringMatching(`[prds]{1,8}`).Draw(t, "chain")}}
	case "gen-attr":
		c = C12Case{Argv: []string{"gen", "attr", "-d", fmt.Sprint(rapid.IntRange(0, 40).Draw(t, "d"))}}
	case "dict-write-event", "dict-write", "dict-chord-describe", "dict-chord-list", "dict-attr-list":
		// user dictionaries, including definitions that collide with each other or with built-ins:
		// whatever crd decides about a collision, it must decide it the same way on every run
		d, usable := genDict(t)
		var extra []UChord
		var extraAttrs []UAttr
		n := rapid.IntRange(1, 4).Draw(t, "ncollide")
		for i := 0; i < n; i++ {
			disp := rapid.SampledFrom(theory.Displays[1:]).Draw(t, "collide-display")
			switch rapid.SampledFrom([]string{"new-name-builtin-display", "same-name-twice", "attr-twice", "new-name-user-display"}).Draw(t, "collision") {
			case "new-name-builtin-display":
				extra = append(extra, UChord{Name: fmt.Sprintf("Collide%d", i), Display: disp, Attrs: []string{"Perfect1", "Perfect4", "Minor7"}})
				usable = append(usable, disp)
			case "same-name-twice":
				extra = append(extra, UChord{Name: "Twice", Display: fmt.Sprintf("tw%d", i), Attrs: []string{"Perfect1", "Major2"}}, UChord{Name: "Twice", Display: fmt.Sprintf("tw%dx", i), Attrs: []string{"Perfect1", "Minor6"}})
				usable = append(usable, "Twice", fmt.Sprintf("tw%d", i))
			case "attr-twice":
				extraAttrs = append(extraAttrs, UAttr{Name: "DupAttr", IV: IV{2, int(theory.Major)}}, UAttr{Name: "DupAttr", IV: IV{6, int(theory.Minor)}})
				extra = append(extra, UChord{Name: fmt.Sprintf("UsesDup%d", i), Display: fmt.Sprintf("ud%d", i), Attrs: []string{"Perfect1", "DupAttr"}})
				usable = append(usable, fmt.Sprintf("ud%d", i))
			case "new-name-user-display":
				if len(d.ChordFiles) > 0 && len(d.ChordFiles[0]) > 0 {
					ud := d.ChordFiles[0][0].Display
					extra = append(extra, UChord{Name: fmt.Sprintf("Shadow%d", i), Display: ud, Attrs: []string{"Perfect1", "Augmented4"}})
				}
			}
		}
		if extraAttrs != nil {
			d.AttrFiles = append(d.AttrFiles, extraAttrs)
		}
		if extra != nil {
			d.ChordFiles = append(d.ChordFiles, extra)
		}
		files, args := d.filesAndArgs()
		use := rapid.SampledFrom(usable).Draw(t, "use")
		switch kind {
		case "dict-write-event":
			c = C12Case{Argv: append([]string{"write", "event"}, args...), Input: oneChordDoc(use), HasInput: true}
		case "dict-write":
			c = C12Case{Argv: append([]string{"write"}, args...), Input: oneChordDoc(use), HasInput: true}
		case "dict-chord-describe":
			tgt := "C" + use
			if use != "" && needsUnderscore(use) {
				tgt = "C_" + use
			}
			c = C12Case{Argv: append([]string{"info", "chord", "describe", "-t", tgt}, args...)}
		case "dict-chord-list":
			c = C12Case{Argv: append([]string{"info", "chord", "list"}, args...)}
		case "dict-attr-list":
			c = C12Case{Argv: append([]string{"info", "attr", "list"}, args...)}
		}
		c.Files = files
	}
	return c
}

// C12Big: an input of more than 1 MiB reaches the command the same way on every input path (no path has a size limit
// of its own). Only the input paths are compared here; the rest of C12 runs on ordinary inputs.
type C12Big struct {
	Argv   []string `json:"argv"`
	Head   string   `json:"head"`
	Filler string   `json:"filler"` // one comment line, repeated Lines times between Head and Tail
	Lines  int      `json:"lines"`
	Tail   string   `json:"tail"`
	Must   []string `json:"must"` // what the result has to contain: the piece goes on after the filler
}

func checkC12Big(c C12Big) *Violation {
	input := c.Head + strings.Repeat(c.Filler, c.Lines) + c.Tail
	cc := C12Case{Argv: c.Argv, Input: input, HasInput: true}
	what := fmt.Sprintf("crd %s on %d bytes of input (%q + %d x %q + %q)", strings.Join(c.Argv, " "), len(input), c.Head, c.Lines, c.Filler, c.Tail)
	ref := cc.run(nil, "stdin", nil)
	if v := cleanOutcome(ref); v != nil {
		v.Msg = what + ": " + v.Msg
		return v
	}
	if ref.Exit != 0 {
		return vio("big-input-refused", "%s: exit %d: %s", what, ref.Exit, firstLines(ref.Stderr, 2))
	}
	for _, m := range c.Must {
		if !strings.Contains(string(ref.Stdout), m) {
			return vio("big-input-cut", "%s: the result (%d bytes) does not contain %q: the part of the piece behind the first MiB is missing", what, len(ref.Stdout), m)
		}
	}
	show := func(r Result) string {
		return fmt.Sprintf("exit %d, %d bytes: %q", r.Exit, len(r.Stdout), clip(string(r.Stdout), 200))
	}
	for _, mode := range []string{"file", "dash"} {
		r := cc.run(nil, mode, nil)
		if !sameOutcome(ref, r) {
			return vio("input-path:"+mode, "%s: input as %s differs from stdin\nstdin: %s\n%s: %s", what, mode, show(ref), mode, show(r))
		}
	}
	r := Run{Argv: append([]string{}, c.Argv...), Stdin: input, StdinFile: true}.Exec()
	if !sameOutcome(ref, r) {
		return vio("input-path:stdin-from-file", "%s: `< file` differs from a pipe\npipe: %s\n< file: %s", what, show(ref), show(r))
	}
	return nil
}

func init() { reg("c12-big", checkC12Big) }

func TestC12(t *testing.T) {
	r := rec("C12")
	defer r.Flush()
	replayCorpus(t, r, "C12")
	reps := pick(5, 20)
	// every command at least once per shard with its most order-sensitive input
	if true {
		fixed := []C12Case{
			{Argv: []string{"info", "key", "list"}},
			{Argv: []string{"info", "key", "conv", "--key", "E", "-c", "d"}},
			{Argv: []string{"info", "key", "conv", "--key", "Bbm", "-c", "s"}},
			{Argv: []string{"info", "key", "conv", "--key", "Ab", "-c", "s"}},
			// a step onto a position with two spellings, then a step away from it: both spellings are members of the
			// set the next step starts from
			{Argv: []string{"info", "key", "conv", "--key", "B", "-c", "dr"}},
			{Argv: []string{"info", "key", "conv", "--key", "Db", "-c", "sr"}},
			{Argv: []string{"info", "key", "conv", "--key", "C", "-c", "ddddddr"}},
			{Argv: []string{"info", "key", "conv", "--key", "G#m", "-c", "dp"}},
			{Argv: []string{"info", "key", "conv", "--key", "E", "-c", "ddrs"}},
			{Argv: []string{"info", "attr", "list"}},
			{Argv: []string{"info", "chord", "list"}},
			{Argv: []string{"gen", "attr"}},
			{Argv: []string{"text", "conv", "degree"}, Input: "1[1]{z=1,a=2,m=3,txt=x,b=4,key=D,y=5,c=6}", HasInput: true},
			{Argv: []string{"write", "parse"}, Input: "- values: [1]\n  meta: {z: a, b: c, y: d, a: e, x: f, c: g}\n  chord: {degree: \"1\", name: m9}\n", HasInput: true},
		}
		// marks just outside the table of dynamics: refused, and refused the same way every time
		fixed = append(fixed,
			C12Case{Argv: []string{"text", "conv", "syllable"}, Input: "C[1]{vel=fff} G[1]{vel=ppp}\n", HasInput: true},
			C12Case{Argv: []string{"write", "event"}, Input: "- values: [\"1\"]\n  chord: {degree: \"1\", name: \"\"}\n  velocity: ppp\n", HasInput: true},
			C12Case{Argv: []string{"write", "--velocity", "fff"}, Input: "- values: [\"1\"]\n  chord: {degree: \"1\", name: \"\"}\n", HasInput: true},
		)
		// the tree walker that classifies a text runs in its own goroutine: a long tacet intro before the first
		// chord, and a piece long enough for scheduling to matter
		tacet := strings.Repeat("R[4] ", 60)
		fixed = append(fixed,
			C12Case{Argv: []string{"text", "conv", "degree"}, Input: tacet + "1[2] 5_7/7[2] 6m[4]{txt=verse}\n", HasInput: true},
			C12Case{Argv: []string{"text", "conv", "syllable", "--key", "Eb"}, Input: tacet + strings.Repeat("Eb[1] Bb_7/D[1] Cm[2] ", pick(1500, 15000)) + "\n", HasInput: true},
			// a long piece that modulates twice: how a note name is read depends on everything before it
			C12Case{Argv: []string{"text", "conv", "syllable", "--key", "Eb"}, Input: strings.Repeat("Eb[1] Bb_7/D[1] Cm[2] ", pick(300, 3000)) + "Ab[1]{key=Ab} " + strings.Repeat("Ab[1] Eb_7/G[1] Fm[2] ", pick(300, 3000)) + "R[1]{key=F#m} " + strings.Repeat("F#m[1] C#_7/E#[1] D[2] ", pick(300, 3000)) + "\n", HasInput: true},
		)
		for i, c := range fixed {
			if !myShare(i) {
				continue
			}
			c.Repeats = reps * 2
			if len(c.Input) > 100000 {
				c.Repeats = reps
			}
			r.Case(fmt.Sprint(c.Argv, c.Input), true, "fixed:"+cmdName(c.Argv))
			r.Check(t, checkC12(c), "c12", c)
		}
	}
	big := []C12Big{
		{Argv: []string{"text", "conv", "syllable", "--key", "G"}, Head: "G[1] D_7/F#[1]\n", Filler: "; remark about the next bar, nothing a parser reads\n", Lines: 21500, Tail: "Em[2] C[1]{txt=end}\n", Must: []string{"txt: end", "degree: \"6\""}},
		{Argv: []string{"text", "parse"}, Head: "1[1]\n", Filler: ";\t\t\t\t\t\t\t\t\t\t\t\t\t\t\t\t\t\t\t\t\t\t\t\t\t\t\t\t\t\t\t\t\t\t\t\t\t\t\t\t\n", Lines: 27000, Tail: "5_7[2] R[1]", Must: []string{"\"7\""}},
		{Argv: []string{"write", "event", "--track", "3"}, Head: "- values: [\"1\"]\n  chord: {degree: \"1\", name: \"m7\"}\n", Filler: "# bars 2-9 still to be written, see the sketch book\n", Lines: 22000, Tail: "- values: [\"1/2\"]\n- values: [\"2\"]\n  chord: {degree: \"5\", name: \"7\", base: \"3\"}\n  meta: {\"mrk\": \"end\"}\n", Must: []string{"MetaMarker", "key: 67 "}},
		{Argv: []string{"write", "conv", "-c", "cmt"}, Head: "- values: [\"1\"]\n  chord: {degree: \"b3\", name: \"M7\"}\n", Filler: "#\n", Lines: 540000, Tail: "- values: [\"3/4\"]\n  chord: {degree: \"4\", name: \"\"}\n", Must: []string{"degree: \"4\"", "3/4"}},
	}
	for i, b := range big {
		if !myShare(i + 5) {
			continue
		}
		r.Case(fmt.Sprint("big", b.Argv, b.Lines), true, "input>1MiB:"+cmdName(b.Argv))
		r.Check(t, checkC12Big(b), "c12-big", b)
	}
	rapid.Check(t, func(t *rapid.T) {
		c := genC12(t)
		c.Repeats = reps
		race := os.Getenv("CRD_RACE_BIN") != "" && coin(t, "race", 25)
		c.Race = race
		cls := []string{"cmd:" + cmdName(c.Argv)}
		if race {
			cls = append(cls, "race-build")
		}
		// non-trivial: multi-line output or an I/O path variant; measured below by a plain run is too costly, use the rule on the command
		r.Case(fmt.Sprint(c.Argv, c.Input, race), true, cls...)
		r.Sample(map[string]any{"argv": c.Argv, "input": clip(c.Input, 300)})
		r.Check(t, checkC12(c), "c12", c)
	})
}
