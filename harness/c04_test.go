package harness

import (
	"fmt"
	"os"
	"os/exec"
	"path/filepath"
	"regexp"
	"strconv"
	"strings"
	"testing"
	"unicode"

	"github.com/berquerant/crd/input/ast"
	"github.com/berquerant/ybase"
	"gopkg.in/yaml.v3"
	"pgregory.net/rapid"
	"verifharness/refparse"
	"verifharness/theory"
)

// C04 - the accepted language is exactly the documented grammar; trees faithful.

type C04Case struct {
	Text string `json:"text"`
	CLI  bool   `json:"cli,omitempty"`
	File bool   `json:"file,omitempty"` // CLI: the text is the FILE argument instead of standard input
	Dev  bool   `json:"dev,omitempty"`  // CLI: the FILE argument is /dev/stdin, fed by a pipe (a FILE need not be a regular file)
	Conv bool   `json:"conv,omitempty"` // CLI: `text conv degree` instead of `text parse` (same language; durations as written)
}

func trimR(s string) string { return strings.TrimRightFunc(s, unicode.IsSpace) }

func canonRef(items []refparse.Item) string {
	var sb strings.Builder
	deg := func(d refparse.Deg) string { return d.Head + "^" + d.Acc }
	for _, it := range items {
		if it.Rest {
			sb.WriteString("R")
		} else {
			sb.WriteString("C " + deg(it.Deg))
			if it.HasSym {
				sb.WriteString(" sym=" + fmt.Sprintf("%q", it.Sym))
			}
			if it.Bass != nil {
				sb.WriteString(" bass=" + deg(*it.Bass))
			}
		}
		sb.WriteString(" [")
		for _, v := range it.Vals {
			sb.WriteString(v.Num)
			if v.HasDen {
				sb.WriteString("/" + v.Den)
			}
			sb.WriteString(",")
		}
		sb.WriteString("]")
		if it.HasMeta {
			sb.WriteString(" {")
			for _, kv := range it.Meta {
				sb.WriteString(fmt.Sprintf("%q=%q,", trimR(kv[0]), trimR(kv[1])))
			}
			sb.WriteString("}")
		}
		sb.WriteString("\n")
	}
	return sb.String()
}

func tokV(t ybase.Token) (string, bool) {
	if t == nil {
		return "", false
	}
	return t.Value(), true
}

func canonImpl(l *ast.ChordList) string {
	var sb strings.Builder
	deg := func(d *ast.ChordDegree) string {
		if d == nil {
			return "<nil>"
		}
		h, _ := tokV(d.Degree)
		a, _ := tokV(d.Accidental)
		return h + "^" + a
	}
	for _, x := range l.List {
		var vals *ast.ChordValues
		var meta *ast.ChordMeta
		switch it := x.(type) {
		case *ast.Rest:
			sb.WriteString("R")
			vals, meta = it.Values, it.Meta
		case *ast.Chord:
			sb.WriteString("C " + deg(it.Degree))
			if it.Symbol != nil {
				s, _ := tokV(it.Symbol.Symbol)
				sb.WriteString(" sym=" + fmt.Sprintf("%q", s))
			}
			if it.Base != nil {
				sb.WriteString(" bass=" + deg(it.Base.Degree))
			}
			vals, meta = it.Values, it.Meta
		default:
			sb.WriteString(fmt.Sprintf("?%T", x))
		}
		sb.WriteString(" [")
		if vals != nil {
			for _, v := range vals.Values {
				n, _ := tokV(v.Num)
				sb.WriteString(n)
				if d, ok := tokV(v.Denom); ok {
					sb.WriteString("/" + d)
				}
				sb.WriteString(",")
			}
		}
		sb.WriteString("]")
		if meta != nil {
			sb.WriteString(" {")
			for _, kv := range meta.Data {
				k, _ := tokV(kv.Key)
				v, _ := tokV(kv.Value)
				sb.WriteString(fmt.Sprintf("%q=%q,", trimR(k), trimR(v)))
			}
			sb.WriteString("}")
		}
		sb.WriteString("\n")
	}
	return sb.String()
}

// canonYAML renders the tree `crd text parse` printed, read generically.
func canonYAML(doc map[string]any) string {
	var sb strings.Builder
	val := func(m any, k string) (string, bool) {
		mm, ok := m.(map[string]any)
		if !ok {
			return "", false
		}
		t, ok := mm[k].(map[string]any)
		if !ok {
			return "", false
		}
		s, _ := t["value"].(string)
		return s, true
	}
	deg := func(d any) string {
		h, _ := val(d, "degree")
		a, _ := val(d, "accidental")
		return h + "^" + a
	}
	list, _ := doc["list"].([]any)
	for _, x := range list {
		it, _ := x.(map[string]any)
		if d, ok := it["degree"]; ok {
			sb.WriteString("C " + deg(d))
			if s, ok := it["symbol"]; ok {
				v, _ := val(s, "symbol")
				sb.WriteString(" sym=" + fmt.Sprintf("%q", v))
			}
			if b, ok := it["base"].(map[string]any); ok {
				sb.WriteString(" bass=" + deg(b["degree"]))
			}
		} else {
			sb.WriteString("R")
		}
		sb.WriteString(" [")
		if vs, ok := it["values"].(map[string]any); ok {
			l, _ := vs["values"].([]any)
			for _, v := range l {
				n, _ := val(v, "num")
				sb.WriteString(n)
				if d, ok := val(v, "denom"); ok {
					sb.WriteString("/" + d)
				}
				sb.WriteString(",")
			}
		}
		sb.WriteString("]")
		if m, ok := it["meta"].(map[string]any); ok {
			sb.WriteString(" {")
			l, _ := m["data"].([]any)
			for _, kv := range l {
				k, _ := val(kv, "key")
				v, _ := val(kv, "value")
				sb.WriteString(fmt.Sprintf("%q=%q,", trimR(k), trimR(v)))
			}
			sb.WriteString("}")
		}
		sb.WriteString("\n")
	}
	return sb.String()
}

// endClass names where the text ends, for hang signatures.
func endClass(s string) string {
	toks, ok := refparse.Lex(s)
	if !ok {
		return "after-underscore"
	}
	if len(toks) > 0 && toks[len(toks)-1].K == "META" && strings.HasSuffix(trimR(s), trimR(toks[len(toks)-1].V)) {
		return "after-META"
	}
	tail := s
	if i := strings.LastIndex(s, "\n"); i >= 0 {
		tail = s[i+1:]
	}
	if strings.Contains(tail, ";") {
		return "in-comment"
	}
	if len(toks) == 0 {
		return "empty"
	}
	return "after-" + toks[len(toks)-1].K
}

// diffParse is the differential oracle: crd's parser vs the reference recogniser.
func diffParse(s string) *Violation {
	st := refparse.Classify(s)
	want := st == refparse.Accept
	if len(s) > 0 && !strings.HasSuffix(s, "\n") {
		// nothing: end of input without a newline is a legal end of a piece
	}
	var v *Violation
	func() {
		defer func() {
			if r := recover(); r != nil {
				v = vio("parser-panic", "ast.Parse panics on %q: %v", s, r)
			}
		}()
		tree, err, hang := implParse(s)
		switch {
		case hang:
			v = vio("parser-hang:"+endClass(s), "the lexer does not stop at the end of input %q (reference: %v)", s, statusName(st))
		case want && (err != nil || tree == nil):
			v = vio("sentence-rejected", "%q is a sentence of the grammar but is rejected: %v", s, err)
		case !want && err == nil:
			got := "<no tree>"
			if tree != nil {
				got = canonImpl(tree)
			}
			sig := "non-sentence-accepted"
			if st == refparse.Viable {
				sig = "incomplete-text-accepted"
			}
			v = vio(sig, "%q is not a sentence (%s) but is accepted without an error; tree:\n%s", s, statusName(st), got)
		case want:
			items, _ := refparse.Parse(s)
			a, b := canonRef(items), canonImpl(tree)
			if a != b {
				v = vio("tree", "tree of %q differs\nwritten:\n%s\ncrd:\n%s", s, a, b)
			}
		}
	}()
	return v
}

func statusName(st refparse.Status) string {
	return [...]string{"not a prefix of any sentence", "proper prefix of a sentence", "sentence"}[st]
}

var plainNum = regexp.MustCompile(`^[1-9][0-9]{0,8}$`)
var plainWord = regexp.MustCompile(`^[a-z]{1,8}$`)

// plainDegrees: a sentence `text conv degree` has no reason of its own to refuse - scale degrees 1..7, dictionary
// symbols, positive durations without padding, no metadata.
func plainDegrees(items []refparse.Item) bool {
	okDeg := func(d refparse.Deg) bool {
		return len(d.Head) == 1 && d.Head[0] >= '1' && d.Head[0] <= '7' && (d.Acc == "" || d.Acc == "b" || d.Acc == "#" || d.Acc == "\u266d" || d.Acc == "\u266f")
	}
	chords := 0
	for _, it := range items {
		if !it.Rest {
			chords++
		}
		if len(it.Vals) == 0 {
			return false
		}
		for _, kv := range it.Meta {
			// texts only: they are carried through as written (settings such as bpm are interpreted)
			if (kv[0] != "txt" && kv[0] != "lic" && kv[0] != "mrk") || !plainWord.MatchString(kv[1]) {
				return false
			}
		}
		if it.HasMeta && len(it.Meta) == 0 {
			return false
		}
		for _, v := range it.Vals {
			if !plainNum.MatchString(v.Num) || (v.HasDen && !plainNum.MatchString(v.Den)) {
				return false
			}
		}
		if it.Rest {
			continue
		}
		if !okDeg(it.Deg) || (it.Bass != nil && !okDeg(*it.Bass)) {
			return false
		}
		if it.HasSym {
			known := false
			for _, d := range theory.Displays {
				known = known || (d != "" && d == it.Sym)
			}
			if !known {
				return false
			}
		}
	}
	// a piece of rests only says nothing about its notation and `text conv` refuses it ("AST type is unknown")
	return chords > 0
}

// checkC04Conv: `text conv` reads the same language as `text parse`: what is not a sentence is refused, and a
// sentence of plain degrees is accepted with one instance per chord or rest carrying the durations as written.
func checkC04Conv(c C04Case) *Violation {
	st := refparse.Classify(c.Text)
	res := Run{Argv: []string{"text", "conv", "degree"}, Stdin: c.Text}.Exec()
	if res.TimedOut {
		return vio("parser-hang:"+endClass(c.Text), "`crd text conv degree` does not terminate on %q", c.Text)
	}
	if v := cleanOutcome(res); v != nil {
		v.Msg = fmt.Sprintf("crd text conv degree on %q: %s", c.Text, v.Msg)
		return v
	}
	if st != refparse.Accept {
		if res.Exit == 0 {
			return vio("conv-accepts-non-sentence", "`crd text conv degree` exit 0 on %q, which is: %s", c.Text, statusName(st))
		}
		return nil
	}
	items, _ := refparse.Parse(c.Text)
	if !plainDegrees(items) {
		return nil
	}
	if res.Exit != 0 {
		return vio("conv-rejects-sentence", "`crd text conv degree` exit %d on the sentence %q: %s", res.Exit, c.Text, firstLines(string(res.Stderr), 1))
	}
	var out []struct {
		Chord  *struct{ Degree string } `yaml:"chord"`
		Values []string                 `yaml:"values"`
		Meta   map[string]string        `yaml:"meta"`
	}
	if err := yaml.Unmarshal(res.Stdout, &out); err != nil {
		return vio("conv-output", "text conv output unreadable: %v\n%s", err, res.Stdout)
	}
	if len(out) != len(items) {
		return vio("conv-count", "`crd text conv degree` on %q lists %d chords and rests, %d written", c.Text, len(out), len(items))
	}
	for i, it := range items {
		if (out[i].Chord == nil) != it.Rest {
			return vio("conv-kind", "`crd text conv degree` on %q: item %d chord/rest differs from what is written", c.Text, i)
		}
		var want []string
		for _, v := range it.Vals {
			w := v.Num
			if v.HasDen && v.Den != "1" {
				w += "/" + v.Den // n/1 is printed n; nothing else is reduced
			}
			want = append(want, w)
		}
		seen := map[string]bool{}
		for _, kv := range it.Meta {
			if seen[kv[0]] {
				continue // a key written twice: which one wins is not stated
			}
			seen[kv[0]] = true
			n := 0
			for _, kv2 := range it.Meta {
				if kv2[0] == kv[0] {
					n++
				}
			}
			if n == 1 && out[i].Meta[kv[0]] != kv[1] {
				return vio("conv-meta", "`crd text conv degree` on %q: item %d has %s=%q, written %q", c.Text, i, kv[0], out[i].Meta[kv[0]], kv[1])
			}
		}
		if strings.Join(want, ",") != strings.Join(out[i].Values, ",") {
			return vio("conv-values", "`crd text conv degree` on %q: item %d has durations %v, written %v", c.Text, i, out[i].Values, want)
		}
	}
	return nil
}

func checkC04(c C04Case) *Violation {
	if !c.CLI {
		return diffParse(c.Text)
	}
	if c.Conv {
		return checkC04Conv(c)
	}
	st := refparse.Classify(c.Text)
	run := Run{Argv: []string{"text", "parse"}, Stdin: c.Text}
	if c.File {
		// the same text given as the FILE argument: the command's glue around the parser differs, the language does not
		run = Run{Argv: []string{"text", "parse", "@in.txt"}, Files: map[string]string{"in.txt": c.Text}, NoStdin: true}
	}
	if c.Dev {
		run = Run{Argv: []string{"text", "parse", "/dev/stdin"}, Stdin: c.Text}
	}
	res := run.Exec()
	if res.TimedOut {
		return vio("parser-hang:"+endClass(c.Text), "`crd text parse` does not terminate on %q", c.Text)
	}
	if v := cleanOutcome(res); v != nil {
		v.Msg = fmt.Sprintf("crd text parse on %q: %s", c.Text, v.Msg)
		return v
	}
	if (res.Exit == 0) != (st == refparse.Accept) {
		return vio("cli-accept", "`crd text parse` exit %d on %q, which is: %s", res.Exit, c.Text, statusName(st))
	}
	if res.Exit == 0 {
		var doc map[string]any
		if err := yaml.Unmarshal(res.Stdout, &doc); err != nil {
			return vio("cli-output", "text parse output unreadable: %v", err)
		}
		items, _ := refparse.Parse(c.Text)
		a, b := canonRef(items), canonYAML(doc)
		if a != b {
			return vio("cli-tree", "`crd text parse` tree of %q differs\nwritten:\n%s\ncrd:\n%s", c.Text, a, b)
		}
	}
	return nil
}

func init() { reg("c04", checkC04) }

var rawAlphabet = []string{"C", "R", "1", "0", "m", "x", "b", "#", "♯", "_", "/", "[", "]", "{", "}", "=", ",", ";", " ", "\n"}
var pieceAlphabet = []string{"C", "R", "1", "0", "m", "x", "b", "#", "♯", "_", "/", "[", "]", "{", "}", "=", ",", ";c\n", " ", "\n", "[1]", "[1/2,3]", "{k=v}", "{k=v w,a=b}", "@", "é"}

func TestC04Raw(t *testing.T) {
	r := rec("C04")
	defer r.Flush()
	replayCorpus(t, r, "C04")
	maxLen := pick(4, 5)
	i := 0
	var walk func(s string, d int)
	walk = func(s string, d int) {
		if d > 0 {
			if myShare(i) {
				st := refparse.Classify(s)
				r.CaseBC(st == refparse.Accept, "raw-string", "raw:"+statusName(st))
				r.Check(t, diffParse(s), "c04", C04Case{Text: s})
			}
			i++
		}
		if d == maxLen {
			return
		}
		for _, a := range rawAlphabet {
			walk(s+a, d+1)
		}
	}
	walk("", 0)
	r.MarkExhaustive(fmt.Sprintf("all strings over a %d-symbol alphabet up to length %d", len(rawAlphabet), maxLen))
}

func TestC04Viable(t *testing.T) {
	r := rec("C04")
	defer r.Flush()
	maxD := pick(5, 6)
	i := 0
	var walk func(s string, d int)
	walk = func(s string, d int) {
		st := refparse.Viable
		if d > 0 {
			st = refparse.Classify(s)
			if myShare(i) {
				// non-trivial: sentences, and rejected strings one piece past a viable prefix
				r.CaseBC(true, "viable-enum", "viable:"+statusName(st))
				if st == refparse.Accept && len(r.Samples) < 6 && i%4099 == shardIndex() {
					r.Samples = append(r.Samples, map[string]any{"sentence": s})
				}
				r.Check(t, diffParse(s), "c04", C04Case{Text: s})
			}
			i++
		}
		if d == maxD || st == refparse.Dead {
			return
		}
		for _, p := range pieceAlphabet {
			walk(s+p, d+1)
		}
	}
	walk("", 0)
	r.MarkExhaustive(fmt.Sprintf("viable-prefix enumeration over %d pieces to depth %d", len(pieceAlphabet), maxD))
}

// ---- generated sentences, trivia, mutations, prefixes

var symPool = []string{"%", "7%d", "no5", "n", "m", "dim", "aug", "7", "M7", "maj7", "m7", "mM7", "m7b5", "dim7", "augM7", "9", "m9", "M9", "maj9", "mM9", "sus4", "7sus4", "6", "m6", "add9", "sus2",
	"MajorSeventh", "DominantSeventh", "+", "(b9)", "ø", "Δ7", "m]x", "{x}", "x,y", "7#9", "b5", "#11", "]", "o7", "R", "C", "}", ",", "♭9", "é"}

func genSDeg(syll bool) *rapid.Generator[SDeg] {
	return rapid.Custom(func(t *rapid.T) SDeg {
		var d SDeg
		if syll {
			d.Head = rapid.SampledFrom(strings.Split("CDEFGAB", "")).Draw(t, "letter")
		} else {
			d.Head = rapid.OneOf(rapid.StringMatching(`[0-9]{1,3}`), rapid.SampledFrom([]string{"1", "2", "3", "4", "5", "6", "7", "0", "007", "15", "123456789012345678901234567890"})).Draw(t, "dnum")
		}
		d.Acc = rapid.SampledFrom([]string{"", "", "#", "b"}).Draw(t, "acc")
		return d
	})
}

var genMetaTok = rapid.Custom(func(t *rapid.T) string {
	s := rapid.OneOf(rapid.StringMatching(`[a-z]{1,4}`), rapid.StringMatching(`[a-zA-Z0-9;/_\[\]# ]{0,8}[a-z;]`),
		rapid.SampledFrom([]string{"key", "bpm", "txt", "é日本", "a b", ";c", "x\ny", "C[1]", "_", "/", "1/2", "R[1]", "a\tb", "♯", "100% sure", "%d bars", "50%", "%s%s%n", "%%"})).Draw(t, "metatok")
	s = strings.TrimFunc(s, unicode.IsSpace)
	if s == "" {
		s = "k"
	}
	return s
})

func genSItem(syll bool) *rapid.Generator[SItem] {
	return rapid.Custom(func(t *rapid.T) SItem {
		var it SItem
		it.Rest = rapid.SampledFrom([]bool{false, false, false, true}).Draw(t, "rest")
		if !it.Rest {
			it.Deg = genSDeg(syll).Draw(t, "deg")
			if rapid.Bool().Draw(t, "sym?") {
				it.Sym = rapid.SampledFrom(symPool).Draw(t, "sym")
			}
			if rapid.SampledFrom([]bool{false, false, true}).Draw(t, "bass?") {
				b := genSDeg(coin(t, "bass-same-notation", 90) == syll).Draw(t, "bass")
				it.Bass = &b
			}
		}
		nv := rapid.IntRange(1, 3).Draw(t, "nv")
		for i := 0; i < nv; i++ {
			v := SVal{Num: rapid.StringMatching(`[0-9]{1,3}`).Draw(t, "vn")}
			if rapid.Bool().Draw(t, "den?") {
				v.Den = rapid.StringMatching(`[0-9]{1,3}`).Draw(t, "vd")
			}
			it.Vals = append(it.Vals, v)
		}
		nm := rapid.SampledFrom([]int{0, 0, 1, 2, 3}).Draw(t, "nm")
		for i := 0; i < nm; i++ {
			it.Meta = append(it.Meta, [2]string{genMetaTok.Draw(t, "mk"), genMetaTok.Draw(t, "mv")})
		}
		return it
	})
}

func canonModel(items []SItem) string {
	var ri []refparse.Item
	for _, it := range items {
		x := refparse.Item{Rest: it.Rest, HasMeta: len(it.Meta) > 0, Meta: it.Meta}
		if !it.Rest {
			x.Deg = refparse.Deg{Head: it.Deg.Head, Acc: it.Deg.Acc}
			if it.Sym != "" {
				x.HasSym, x.Sym = true, it.Sym
			}
			if it.Bass != nil {
				x.Bass = &refparse.Deg{Head: it.Bass.Head, Acc: it.Bass.Acc}
			}
		}
		for _, v := range it.Vals {
			x.Vals = append(x.Vals, refparse.Val{Num: v.Num, Den: v.Den, HasDen: v.Den != ""})
		}
		ri = append(ri, x)
	}
	return canonRef(ri)
}

// mutate applies one token-level edit to a text.
func mutate(t *rapid.T, s string) (string, string) {
	toks := splitPieces(s)
	if len(toks) == 0 {
		return s, "none"
	}
	i := rapid.IntRange(0, len(toks)-1).Draw(t, "mut-at")
	ins := rapid.SampledFrom([]string{"C", "R", "1", "b", "#", "_", "/", "[", "]", "{", "}", "=", ",", ";", " ", "m", "7", "x", "\n", "[1]", "{a=b}", "１", "٢", "৩", "²", "\x00", "\x00m"}).Draw(t, "mut-ins") // the last four: digits of other scripts are symbol characters, not numbers
	kind := rapid.SampledFrom([]string{"delete", "insert", "swap", "duplicate", "replace", "truncate"}).Draw(t, "mut-kind")
	switch kind {
	case "delete":
		toks = append(toks[:i:i], toks[i+1:]...)
	case "insert":
		toks = append(toks[:i:i], append([]string{ins}, toks[i:]...)...)
	case "swap":
		if i+1 < len(toks) {
			toks[i], toks[i+1] = toks[i+1], toks[i]
		}
	case "duplicate":
		toks = append(toks[:i+1:i+1], toks[i:]...)
	case "replace":
		toks[i] = ins
	case "truncate":
		toks = toks[:i]
	}
	return strings.Join(toks, ""), kind
}

// splitPieces cuts a text into lexical pieces (runs of letters/digits, single other runes).
func splitPieces(s string) []string {
	var r []string
	cur := ""
	kind := 0
	for _, c := range s {
		k := 3
		switch {
		case unicode.IsDigit(c):
			k = 1
		case unicode.IsLetter(c) && !strings.ContainsRune("CDEFGABRb", c):
			k = 2
		}
		if k != 3 && k == kind {
			cur += string(c)
			continue
		}
		if cur != "" {
			r = append(r, cur)
		}
		cur, kind = string(c), k
		if k == 3 {
			r = append(r, cur)
			cur, kind = "", 0
		}
	}
	if cur != "" {
		r = append(r, cur)
	}
	return r
}

func TestC04Sentences(t *testing.T) {
	r := rec("C04")
	defer r.Flush()
	maxItems := pick(8, 30)
	rapid.Check(t, func(t *rapid.T) {
		syll := rapid.Bool().Draw(t, "syll")
		items := rapid.SliceOfN(genSItem(syll), 1, maxItems).Draw(t, "items")
		if coin(t, "long-piece", 5) {
			// several KB: crosses the lexer's 4 KiB read buffer
			n := rapid.IntRange(120, 400).Draw(t, "long-n")
			for len(items) < n {
				items = append(items, items[len(items)%maxInt(1, len(items)/2+1)])
			}
			r.Class("long-sentence(>120 items)", 1)
		}
		st := &rapidStyle{t: t, trivia: coin(t, "trivia", 70), us: true, zeros: true, uni: true, nEdits: map[string]int{}}
		text := Render(items, st)
		c := C04Case{Text: text}
		r.Case("S:"+text, true, "generated-sentence")
		r.Sample(map[string]any{"sentence": text})
		// the generator's own model must be what the reference recogniser reads (harness self-check)
		ref, ok := refparse.Parse(text)
		if !ok {
			r.Check(t, vio("harness", "reference recogniser rejects a generated sentence %q", text), "c04", c)
		}
		want := canonModel(items)
		// leading zeros and unicode accidentals are spelling: normalise both sides
		if normTree(canonRef(ref)) != normTree(want) {
			r.Check(t, vio("harness", "reference tree differs from the generator model for %q\n%s\nvs\n%s", text, canonRef(ref), want), "c04", c)
		}
		r.Check(t, diffParse(text), "c04", c)
		if coin(t, "cli", 10) {
			cc := C04Case{Text: text, CLI: true, File: rapid.Bool().Draw(t, "as-file"), Dev: coin(t, "as-dev-stdin", 15)}
			r.Case("CLI:"+text, true, "through-cli")
			r.Check(t, checkC04(cc), "c04", cc)
		}
		if coin(t, "conv-plain", 6) {
			// the same grammar behind `text conv`: a sentence of plain scale degrees, durations of any size
			var sb strings.Builder
			n := rapid.IntRange(1, 5).Draw(t, "plain-n")
			num := func(l string) string {
				if coin(t, l+"-big", 30) {
					return strconv.Itoa(rapid.SampledFrom([]int{100, 128, 255, 256, 257, 300, 960, 1000, 4096, 65535, 65536, 100000}).Draw(t, l+"-v"))
				}
				return strconv.Itoa(rapid.IntRange(1, 12).Draw(t, l))
			}
			deg := func(l string) string {
				return strconv.Itoa(rapid.IntRange(1, 7).Draw(t, l)) + rapid.SampledFrom([]string{"", "", "b", "#", "\u266d", "\u266f"}).Draw(t, l+"-acc")
			}
			for i := 0; i < n; i++ {
				if i > 0 && coin(t, "plain-rest", 25) {
					sb.WriteString("R")
				} else {
					sb.WriteString(deg("plain-deg"))
					if rapid.Bool().Draw(t, "plain-sym") {
						sb.WriteString("_" + rapid.SampledFrom(theory.Displays[1:]).Draw(t, "plain-symbol"))
					}
					if coin(t, "plain-bass", 25) {
						sb.WriteString("/" + deg("plain-bass-deg"))
					}
				}
				sb.WriteString("[")
				k := rapid.IntRange(1, 4).Draw(t, "plain-nvals")
				for j := 0; j < k; j++ {
					if j > 0 {
						sb.WriteString(",")
					}
					sb.WriteString(num("plain-num"))
					if rapid.Bool().Draw(t, "plain-frac") {
						sb.WriteString("/" + num("plain-den"))
					}
				}
				sb.WriteString("]")
				if coin(t, "plain-meta", 30) {
					ks := []string{"txt", "lic", "mrk"}
					k0 := rapid.IntRange(0, 2).Draw(t, "plain-meta-key")
					sb.WriteString("{" + ks[k0] + "=" + rapid.StringMatching(`[a-z]{1,8}`).Draw(t, "plain-meta-v"))
					if rapid.Bool().Draw(t, "plain-meta-two") {
						sb.WriteString("," + ks[(k0+1)%3] + "=" + rapid.StringMatching(`[a-z]{1,8}`).Draw(t, "plain-meta-v2"))
					}
					sb.WriteString("}")
				}
				sb.WriteString(" ")
			}
			cc := C04Case{Text: sb.String(), CLI: true, Conv: true}
			if ref, ok := refparse.Parse(cc.Text); !ok || !plainDegrees(ref) {
				r.Check(t, vio("harness", "plain-degree sentence %q is not one for the reference recogniser", cc.Text), "c04", cc)
			}
			r.Case("CONV:"+cc.Text, true, "through-cli", "text-conv-plain-degrees")
			r.Check(t, checkC04(cc), "c04", cc)
		}
		if coin(t, "very-long-line", 2) {
			// a line longer than 64 KiB (a piece written on one line, or one long remark) between two short lines:
			// no line-length limit is documented, the tree must hold every chord of all three lines
			one := Render(items, canonStyle{})
			var long string
			if rapid.Bool().Draw(t, "long-line-is-comment") {
				long = ";" + strings.Repeat(" lyrics, remarks and other things nobody parses", 1400+rapid.IntRange(0, 1400).Draw(t, "long-pad"))
				r.Class("comment-line>64KiB", 1)
			} else {
				long = strings.Repeat(one, 66000/len(one)+1+rapid.IntRange(0, 40).Draw(t, "long-rep"))
				r.Class("piece-on-one-line>64KiB", 1)
			}
			cc := C04Case{Text: one + "\n" + long + "\n" + one, CLI: true, File: rapid.Bool().Draw(t, "as-file"), Dev: coin(t, "as-dev-stdin", 15)}
			r.Case(fmt.Sprintf("CLI-long:%d:%s", len(long), one), true, "through-cli")
			r.Check(t, checkC04(cc), "c04", cc)
		}
		// every proper prefix (cut at piece boundaries) and a few mutations
		pieces := splitPieces(text)
		if len(pieces) > 1 {
			k := rapid.IntRange(1, len(pieces)-1).Draw(t, "prefix-at")
			p := strings.Join(pieces[:k], "")
			pst := refparse.Classify(p)
			r.Case("P:"+p, pst != refparse.Accept, "proper-prefix", "prefix:"+statusName(pst))
			r.Check(t, diffParse(p), "c04", C04Case{Text: p})
		}
		for m := 0; m < 3; m++ {
			mt, kind := mutate(t, text)
			mst := refparse.Classify(mt)
			r.Case("M:"+mt, true, "mutation", "mutation:"+kind, "mutated:"+statusName(mst))
			r.Check(t, diffParse(mt), "c04", C04Case{Text: mt})
			if m == 0 && coin(t, "mut-cli", 10) {
				cc := C04Case{Text: mt, CLI: true, File: rapid.Bool().Draw(t, "as-file"), Dev: coin(t, "as-dev-stdin", 15)}
				r.Case("CLI:"+mt, true, "through-cli")
				r.Check(t, checkC04(cc), "c04", cc)
				if mst != refparse.Accept {
					cv := C04Case{Text: mt, CLI: true, Conv: true}
					r.Case("CONV:"+mt, true, "through-cli", "text-conv-non-sentence")
					r.Check(t, checkC04(cv), "c04", cv)
				}
			}
		}
		// suffix rule: sentence + garbage
		g := rapid.SampledFrom([]string{"x", "]", "}", "=", ",", "/", "_", "[", "{", "1", "C", "#", ";", "m7"}).Draw(t, "garbage")
		sg := text + g
		r.Case("G:"+sg, true, "sentence-plus-garbage", "garbage:"+statusName(refparse.Classify(sg)))
		r.Check(t, diffParse(sg), "c04", C04Case{Text: sg})
		if coin(t, "garbage-cli", 12) {
			// the command adds its own glue around the parser (what it does with the lexer's error)
			cc := C04Case{Text: sg, CLI: true, File: rapid.Bool().Draw(t, "as-file"), Dev: coin(t, "as-dev-stdin", 15)}
			r.Case("CLI:"+sg, true, "through-cli", "garbage-through-cli")
			r.Check(t, checkC04(cc), "c04", cc)
		}
	})
}

func normTree(s string) string {
	s = strings.NewReplacer("♯", "#", "♭", "b").Replace(s)
	// strip leading zeros inside [...] durations
	var sb strings.Builder
	in := false
	start := true
	for _, c := range s {
		switch {
		case c == '[':
			in, start = true, true
		case c == ']':
			in = false
		case in && (c == ',' || c == '/'):
			start = true
			sb.WriteRune(c)
			continue
		case in && c == '0' && start:
			continue
		default:
			start = false
		}
		sb.WriteRune(c)
	}
	return sb.String()
}

// ---- the generated parser is the one goyacc produces from chords.y

func TestC04Goyacc(t *testing.T) {
	r := rec("C04")
	defer r.Flush()
	if shardIndex() != 0 {
		return
	}
	repo := os.Getenv("VERIF_REPO")
	if repo == "" {
		repo = "/repo"
	}
	dir := filepath.Join(repo, "input", "ast")
	work := filepath.Join(workDir(), "goyacc")
	if err := os.MkdirAll(work, 0o755); err != nil {
		t.Fatal(err)
	}
	defer os.RemoveAll(work)
	src, err := os.ReadFile(filepath.Join(dir, "chords.y"))
	if err != nil {
		t.Fatal(err)
	}
	want, err := os.ReadFile(filepath.Join(dir, "chords_goyacc_generated.go"))
	if err != nil {
		t.Fatal(err)
	}
	if err := os.WriteFile(filepath.Join(work, "chords.y"), src, 0o644); err != nil {
		t.Fatal(err)
	}
	// goyacc is a tool dependency of /repo's module (x/tools, in the module cache): build it there, run it on a
	// scratch copy of chords.y with the original relative arguments (they are echoed in the generated header).
	bin := filepath.Join(work, "goyacc")
	build := exec.Command("go", "build", "-o", bin, "golang.org/x/tools/cmd/goyacc")
	build.Dir = repo
	build.Env = append(os.Environ(), "GOFLAGS=-mod=readonly")
	if out, err := build.CombinedOutput(); err != nil {
		r.Note("goyacc could not be built (%v: %s): generated-parser clause undecided in this run", err, clip(string(out), 300))
		t.Logf("goyacc unavailable: %v %s", err, out)
		return
	}
	cmd := exec.Command(bin, "-o", "chords_goyacc_generated.go", "-v", "chords_goyacc_generated.output", "chords.y")
	cmd.Dir = work
	out, err := cmd.CombinedOutput()
	if err != nil {
		r.Check(t, vio("goyacc-fails", "goyacc fails on chords.y: %v %s", err, out), "c04-goyacc", C04Case{})
		return
	}
	got, err := os.ReadFile(filepath.Join(work, "chords_goyacc_generated.go"))
	if err != nil {
		t.Fatal(err)
	}
	norm := func(b []byte) string { return string(b) }
	r.CaseBC(true, "goyacc-regeneration")
	if norm(got) != norm(want) {
		c := C04Case{Text: "(goyacc regeneration)"}
		r.Check(t, vio("goyacc-drift", "chords_goyacc_generated.go is not what goyacc generates from chords.y (%d vs %d bytes)", len(want), len(got)), "c04-goyacc", c)
	}
	if strings.Contains(string(out), "conflict") {
		r.Check(t, vio("goyacc-conflicts", "goyacc reports conflicts: %s", out), "c04-goyacc", C04Case{})
	}
}

func init() {
	reg("c04-goyacc", func(c C04Case) *Violation { return nil })
}

// FuzzC04Parse: coverage-guided differential fuzzing of the parser (thorough
// tier). Go's fuzzer cannot be pinned to a seed; a failing input is saved as
// an ordinary replay file by fuzzFail.
func FuzzC04Parse(f *testing.F) {
	for _, s := range []string{"C[1]", "Bbm[2]", "D[1] A_7/E[1] E[2] R[1]", "2[1] 6_7/5[1] 3[2]", "C[1]{key=Am,bpm=200}", "C[1]{lic=some lyric}",
		"C#m7b5/Gb[1/2,3/4]{txt=a b, mrk=x}\n; comment\nR[1]", "1b_7/5#[01,2/03]", "C_[1]", "C[1]{", "C[1]{a=}", "C♯[1]", "C ; c\n [1]", "_", ";", "C[1];", "Cm", "C[1]{a=b", "1[1]}", "C_{x}[1]", "C[1]{a=b}{c=d}"} {
		f.Add(s)
	}
	f.Fuzz(func(t *testing.T, s string) {
		if len(s) > 4096 {
			return
		}
		if v := diffParse(s); v != nil {
			fuzzFail(t, "C04", "c04", C04Case{Text: s}, v)
		}
	})
}

func maxInt(a, b int) int {
	if a > b {
		return a
	}
	return b
}
