package harness

import (
	"bytes"
	"fmt"
	"io"
	"os"
	"os/exec"
	"path/filepath"
	"strings"
	"sync/atomic"
	"syscall"
	"time"
)

// Layer A: the real crd binary, built by the driver from /repo's working tree.

func crdBin() string {
	if v := os.Getenv("CRD_BIN"); v != "" {
		return v
	}
	panic("CRD_BIN not set: run through /verif/check")
}

func workDir() string {
	d := os.Getenv("VERIF_WORK")
	if d == "" {
		panic("VERIF_WORK not set: run through /verif/check")
	}
	return d
}

type Run struct {
	Argv        []string          `json:"argv"`
	Stdin       string            `json:"stdin"`
	Files       map[string]string `json:"files,omitempty"` // name -> content, created in a private dir; "@name" in argv is replaced by the path
	Env         []string          `json:"env,omitempty"`
	OutArg      string            `json:"out_arg,omitempty"`      // name of a file (in the private dir) the command writes; content returned in Result.OutFile
	StdoutAppend string           `json:"stdout_append,omitempty"` // standard output is a regular file that already holds this text, opened for appending (`>> notes.txt`); Stdout = what the file holds afterwards
	StdinSkip   string            `json:"stdin_skip,omitempty"`    // standard input is a regular file that starts with this text, which the caller has already read (the offset stands behind it)
	NoStdin     bool              `json:"no_stdin,omitempty"`     // standard input is /dev/null (a character device) instead of a pipe
	StdinFile   bool              `json:"stdin_file,omitempty"`   // standard input is a regular file holding Stdin (`crd ... < file`)
	StdinBursts bool              `json:"stdin_bursts,omitempty"` // standard input is a pipe fed in two writes with a pause between them
}

type Result struct {
	Exit     int    `json:"exit"`
	Signal   string `json:"signal,omitempty"`
	Stdout   []byte `json:"-"`
	Stderr   string `json:"stderr"`
	TimedOut bool   `json:"timed_out,omitempty"`
	OutFile  []byte `json:"-"`
	HasOut   bool   `json:"-"`
	WallMS   int64  `json:"wall_ms"`
}

var runSeq atomic.Int64
var ExecCount atomic.Int64

func watchdog() time.Duration {
	if os.Getenv("VERIF_TIER") == "thorough" {
		return 30 * time.Second
	}
	return 10 * time.Second
}

func (r Run) exec1(timeout time.Duration) Result {
	ExecCount.Add(1)
	dir := ""
	argv := append([]string{}, r.Argv...)
	if len(r.Files) > 0 || r.OutArg != "" {
		dir = filepath.Join(workDir(), fmt.Sprintf("run-%d-%d", os.Getpid(), runSeq.Add(1)))
		if err := os.MkdirAll(dir, 0o755); err != nil {
			panic(err)
		}
		defer os.RemoveAll(dir)
		for name, content := range r.Files {
			if err := os.WriteFile(filepath.Join(dir, name), []byte(content), 0o644); err != nil {
				panic(err)
			}
		}
		names := []string{}
		for name := range r.Files {
			names = append(names, name)
		}
		if r.OutArg != "" {
			names = append(names, r.OutArg)
		}
		for i := range argv {
			for _, name := range names {
				argv[i] = strings.ReplaceAll(argv[i], "@"+name, filepath.Join(dir, name))
			}
		}
	}
	cmd := exec.Command(crdBin(), argv...)
	ensureDir := func() {
		if dir == "" {
			dir = filepath.Join(workDir(), fmt.Sprintf("run-%d-%d", os.Getpid(), runSeq.Add(1)))
			if err := os.MkdirAll(dir, 0o755); err != nil {
				panic(err)
			}
		}
	}
	var appendFile *os.File
	switch {
	case r.StdinSkip != "":
		ensureDir()
		defer os.RemoveAll(dir)
		p := filepath.Join(dir, ".stdin")
		if err := os.WriteFile(p, []byte(r.StdinSkip+r.Stdin), 0o644); err != nil {
			panic(err)
		}
		f, err := os.Open(p)
		if err != nil {
			panic(err)
		}
		defer f.Close()
		if _, err := f.Seek(int64(len(r.StdinSkip)), 0); err != nil {
			panic(err)
		}
		cmd.Stdin = f
	case r.NoStdin:
	case r.StdinFile:
		if dir == "" {
			dir = filepath.Join(workDir(), fmt.Sprintf("run-%d-%d", os.Getpid(), runSeq.Add(1)))
			if err := os.MkdirAll(dir, 0o755); err != nil {
				panic(err)
			}
			defer os.RemoveAll(dir)
		}
		p := filepath.Join(dir, ".stdin")
		if err := os.WriteFile(p, []byte(r.Stdin), 0o644); err != nil {
			panic(err)
		}
		f, err := os.Open(p)
		if err != nil {
			panic(err)
		}
		defer f.Close()
		cmd.Stdin = f
	case r.StdinBursts:
		cmd.Stdin = &burstReader{data: []byte(r.Stdin)}
	default:
		cmd.Stdin = strings.NewReader(r.Stdin)
	}
	var out, errb bytes.Buffer
	cmd.Stdout = &out
	if r.StdoutAppend != "" {
		ensureDir()
		defer os.RemoveAll(dir)
		p := filepath.Join(dir, ".stdout")
		if err := os.WriteFile(p, []byte(r.StdoutAppend), 0o644); err != nil {
			panic(err)
		}
		f, err := os.OpenFile(p, os.O_WRONLY|os.O_APPEND, 0o644)
		if err != nil {
			panic(err)
		}
		defer f.Close()
		appendFile = f
		cmd.Stdout = f
	}
	cmd.Stderr = &errb
	cmd.Env = append(os.Environ(), r.Env...)
	if dir != "" {
		cmd.Dir = dir
	}
	start := time.Now()
	var res Result
	if err := cmd.Start(); err != nil {
		panic(fmt.Sprintf("cannot start crd: %v", err))
	}
	done := make(chan error, 1)
	go func() { done <- cmd.Wait() }()
	var werr error
	select {
	case werr = <-done:
	case <-time.After(timeout):
		_ = cmd.Process.Kill()
		<-done
		res.TimedOut = true
	}
	res.WallMS = time.Since(start).Milliseconds()
	res.Stdout = out.Bytes()
	if appendFile != nil {
		b, _ := os.ReadFile(appendFile.Name())
		res.Stdout = b
	}
	res.Stderr = errb.String()
	if len(res.Stderr) > 4000 {
		res.Stderr = res.Stderr[:4000] + "...[cut]"
	}
	if res.TimedOut {
		res.Exit = -9
		return res
	}
	if werr != nil {
		if ee, ok := werr.(*exec.ExitError); ok {
			res.Exit = ee.ExitCode()
			if ws, ok := ee.Sys().(syscall.WaitStatus); ok && ws.Signaled() {
				res.Signal = ws.Signal().String()
			}
		} else {
			panic(fmt.Sprintf("crd wait: %v", werr))
		}
	}
	if r.OutArg != "" {
		b, err := os.ReadFile(filepath.Join(dir, r.OutArg))
		if err == nil {
			res.OutFile, res.HasOut = b, true
		}
	}
	return res
}

// Exec runs crd under the watchdog. A timeout is re-run once, alone in this
// process, before it is believed, so that machine load cannot fake a hang.
func (r Run) Exec() Result {
	// work proportional to the input is not a hang: one extra second per 20 KB of input
	size := len(r.Stdin)
	for _, f := range r.Files {
		size += len(f)
	}
	w := watchdog() + time.Duration(size/20000)*time.Second
	res := r.exec1(w)
	if res.TimedOut {
		res = r.exec1(w * 2)
	}
	return res
}

// Crashed reports a panic / fatal error / signal.
func (res Result) Crashed() bool {
	if res.Signal != "" {
		return true
	}
	return strings.Contains(res.Stderr, "panic:") || strings.Contains(res.Stderr, "fatal error:") || strings.Contains(res.Stderr, "goroutine 1 [")
}

// CrashFrame returns the first crd frame of a Go stack dump, for signatures.
func (res Result) CrashFrame() string {
	for _, l := range strings.Split(res.Stderr, "\n") {
		l = strings.TrimSpace(l)
		if strings.HasPrefix(l, "github.com/berquerant/crd/") || strings.HasPrefix(l, "main.") {
			if i := strings.Index(l, "("); i > 0 {
				l = l[:i]
			}
			return strings.TrimPrefix(l, "github.com/berquerant/crd/")
		}
	}
	return "unknown-frame"
}

func crd(stdin string, argv ...string) Result {
	return Run{Argv: argv, Stdin: stdin}.Exec()
}

// burstReader hands out its data in two reads with a pause in between, the way a slow producer fills a pipe.
type burstReader struct {
	data  []byte
	state int
}

func (b *burstReader) Read(p []byte) (int, error) {
	switch b.state {
	case 0:
		b.state = 1
		n := len(b.data) / 2
		if n > len(p) {
			n = len(p)
		}
		copy(p, b.data[:n])
		b.data = b.data[n:]
		return n, nil
	case 1:
		b.state = 2
		time.Sleep(60 * time.Millisecond)
		fallthrough
	default:
		if len(b.data) == 0 {
			return 0, io.EOF
		}
		n := copy(p, b.data)
		b.data = b.data[n:]
		return n, nil
	}
}
