#!/usr/bin/env python3
"""Regenerates /verif/MANIFEST.json from tools/plan.py."""
import json, os, sys
ROOT = os.path.dirname(os.path.dirname(os.path.abspath(__file__)))
sys.path.insert(0, os.path.join(ROOT, "tools"))
from plan import PLAN, NOT_APPLICABLE

props = [json.loads(l) for l in open(os.path.join(ROOT, "properties.jsonl"))]
checks = []
na = []
for p in props:
    pid = p["id"]
    if pid in PLAN:
        pl = PLAN[pid]
        checks.append({
            "property_id": pid,
            "quick_cmd": "./check %s --tier quick" % pid,
            "thorough_cmd": "./check %s --tier thorough" % pid,
            "evidence_file": "/verif/evidence/%s.json" % pid,
            "replay_cmd_template": "./check %s --replay {path}" % pid,
            "engine": "harness",
            "level_claimed": {
                "category": pl.get("level", "exploration"),
                "text": pl["level_text"],
                "design_ref": pl.get("design_ref", "DESIGN.md section 3, " + pid),
            },
            "level_note": pl["level_note"],
            "technique": pl["technique"],
        })
    else:
        na.append({"property_id": pid, "reason": NOT_APPLICABLE.get(pid, "check not built yet in this session (planned: see DESIGN.md section 3)")})
m = {
    "version": 1,
    "setup_cmd": "./setup.sh",
    "hooks": {
        "guard": "verif",
        "enable": "none needed: no check uses instrumentation inside crd; checks build /repo as it is (go build ./cmd, and the library packages through a replace directive)",
        "baseline_off_cmd": "cd /repo && go test -vet=off -count=1 ./...",
        "source_commits": [],
        "add_only": True,
    },
    "engines": [{
        "name": "harness",
        "path": "/verif/harness",
        "serves_properties": [c["property_id"] for c in checks],
        "kind_free_text": "Go test module (pgregory.net/rapid v1.3.0 + native go fuzzing) with independent oracles (theory, smfread, refparse), driven by /verif/check (python3 stdlib) in up to 16 seed-sharded processes",
    }],
    "checks": checks,
    "notes": "Every check: ./check <ID> [--tier quick|thorough] [--replay FILE]; VERIF_SEED selects the rapid seeds (shard i uses seed*1000+i+1). Exit 0 held / 1 VIOLATION line / 2 inconclusive (infrastructure, deadline). Known findings: /verif/KNOWN_FINDINGS.txt.",
    "not_applicable": na,
}
json.dump(m, open(os.path.join(ROOT, "MANIFEST.json"), "w"), indent=1)
print("checks:", len(checks), "not_applicable:", len(na))
