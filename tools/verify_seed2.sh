#!/bin/sh
# usage: tools/verify_seed2.sh <worktree> <dN> — worktree is clean; seed/<dN>/patch.diff + demo.sh
d=$1; n=$2; cd $d || exit 2
export GOPROXY=off
git diff --quiet -- . ':!seed' || { echo "WORKTREE NOT CLEAN: $(git status --short | tr '\n' ' ')"; git checkout -- . ; }
git apply seed/$n/patch.diff || { echo "PATCH DOES NOT APPLY"; exit 2; }
go build ./... || { echo "BUILD FAILS"; git checkout -- .; exit 1; }
t=$(go test -vet=off -count=1 $(go list ./... | grep -v '/seed') 2>&1 | grep -v 'no test files' | grep -v '^ok')  # the seed's own demonstration files are not part of the suite
timeout 900 sh seed/$n/demo.sh >/tmp/w/demo.with 2>&1; a=$?
git apply -R seed/$n/patch.diff
timeout 900 sh seed/$n/demo.sh >/tmp/w/demo.without 2>&1; b=$?
echo "with change: demo exit $a; without: demo exit $b; unit tests: ${t:-pass}; files: $(grep '^+++ ' seed/$n/patch.diff | sed 's/+++ b\///' | tr '\n' ' ')"
