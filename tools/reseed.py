#!/usr/bin/env python3
"""Re-run every kept seeded breakage (/verif/seeded/<id>/patch.diff) against the current harness.
usage: tools/reseed.py [ids...]   (default: all)
For each seed: scratch worktree of /repo + patch (tools/seedtest.sh), the owning check (meta.json "property", quick,
seed 1); if the owning check stays silent, the neighbouring checks named in meta.json "detection" are tried.
Writes /verif/seeded/REGRESSION.txt (one line per seed) - a regression suite for the harness itself:
a strengthening that silences an older detection shows up here."""
import glob, json, os, re, subprocess, sys
ROOT = os.path.dirname(os.path.dirname(os.path.abspath(__file__)))
ids = sys.argv[1:] or sorted(os.path.basename(p) for p in glob.glob(os.path.join(ROOT, "seeded", "C??-*")))
lines = []
for name in ids:
    mp = os.path.join(ROOT, "seeded", name, "meta.json")
    try:
        meta = json.load(open(mp))
    except Exception:
        meta = {}
    own = meta.get("property") or name[:3]
    if not re.fullmatch(r"C\d\d", str(own)):
        own = name[:3]
    det = str(meta.get("detection", ""))
    others = [c for c in dict.fromkeys(re.findall(r"C\d\d", det)) if c != own]
    def run(checks):
        out = subprocess.run([os.path.join(ROOT, "tools", "seedtest.sh"), "seeded/" + name] + checks,
                             stdout=subprocess.PIPE, stderr=subprocess.STDOUT, text=True).stdout
        res = {}
        for l in out.splitlines():
            m = re.match(r"seeded/\S+ (C\d\d) rc=(\d+) sigs=(\S*)", l)
            if m:
                res[m.group(1)] = (m.group(2), m.group(3).strip(","))
        return res, out
    res, out = run([own])
    if own not in res:
        line = "%s %s ERROR %s" % (name, own, out.strip().splitlines()[-1][:120] if out.strip() else "no output")
    elif res[own][0] == "1":
        line = "%s %s caught (%s)" % (name, own, res[own][1][:100])
    else:
        line = "%s %s NOT-CAUGHT rc=%s" % (name, own, res[own][0])
        if others:
            r2, _ = run(others)
            hit = ["%s (%s)" % (c, v[1][:60]) for c, v in r2.items() if v[0] == "1"]
            line += "; neighbours: " + (", ".join(hit) if hit else "none of " + ",".join(others))
    print(line, flush=True)
    lines.append(line)
if not sys.argv[1:]:
    head = subprocess.run(["git", "-C", ROOT, "rev-parse", "--short", "HEAD"], stdout=subprocess.PIPE, text=True).stdout.strip()
    with open(os.path.join(ROOT, "seeded", "REGRESSION.txt"), "w") as f:
        f.write("# tools/reseed.py on top of /verif commit %s: every kept seed against its owning check (quick, seed 1)\n" % head)
        f.write("\n".join(lines) + "\n")
