#!/bin/sh
# usage: tools/seedtest.sh <seed dir> CHECK... — run checks (quick) against a scratch worktree of /repo with the
# seeded patch applied (VERIF_REPO); /repo itself is not touched. Prints one line per check.
s=$1; shift
wt=/tmp/w/seedtest-$(basename $s)-$$
git -C /repo worktree add -q --detach $wt HEAD || exit 2
( cd $wt && git apply /verif/$s/patch.diff ) || { echo "PATCH DOES NOT APPLY"; git -C /repo worktree remove --force $wt; exit 2; }
for c in "$@"; do
  out=$(cd /verif && VERIF_REPO=$wt ./check $c 2>&1); rc=$?
  sigs=$(for f in $(echo "$out" | grep -o 'replay=/verif/[^ ]*' | cut -d= -f2); do python3 -c "import json,sys; print(json.load(open('$f'))['sig'])" 2>/dev/null; done | sort -u | tr '\n' ',')
  echo "$s $c rc=$rc sigs=$sigs $(echo "$out" | grep evaluations | tail -1 | sed 's/.*: //')"
done
git -C /repo worktree remove --force $wt; rm -rf /verif/.work/scratch-replays/$(basename $wt)
