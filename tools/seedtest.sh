#!/bin/sh
# usage: tools/seedtest.sh <seed dir> CHECK... — apply the seeded patch to /repo, run the checks (quick), undo. Prints one line per check.
s=$1; shift
cd /repo || exit 2
git diff --quiet || { echo "REPO DIRTY"; exit 2; }
git apply /verif/$s/patch.diff || { echo "PATCH DOES NOT APPLY"; exit 2; }
for c in "$@"; do
  out=$(cd /verif && ./check $c 2>&1); rc=$?
  sigs=$(for f in $(echo "$out" | grep -o 'replay=/verif/replays/[^ ]*' | cut -d= -f2); do python3 -c "import json,sys; print(json.load(open('$f'))['sig'])" 2>/dev/null; done | sort -u | tr '\n' ',')
  echo "$s $c rc=$rc sigs=$sigs $(echo "$out" | grep evaluations | tail -1 | sed 's/.*: //')"
done
git checkout -- . ; rm -f /verif/replays/*/*.json
