#!/bin/sh
# usage: tools/verify_seed.sh <worktree> — confirm a seeded change: builds, unit tests pass, demo fails with it and passes without it
d=$1; cd $d || exit 2
export GOPROXY=off
git diff --quiet -- . ':!seed' && { echo "NO CHANGE APPLIED"; exit 2; }
git diff -- . ':!seed' > /tmp/w/cur-$$.diff
go build ./... || { echo "BUILD FAILS"; exit 1; }
t=$(go test -vet=off -count=1 ./... 2>&1 | grep -v 'no test files' | grep -v '^ok')
timeout 900 sh seed/demo.sh >/tmp/w/demo.with 2>&1; a=$?
git apply -R /tmp/w/cur-$$.diff
timeout 900 sh seed/demo.sh >/tmp/w/demo.without 2>&1; b=$?
git apply /tmp/w/cur-$$.diff; rm -f /tmp/w/cur-$$.diff
echo "with change: demo exit $a; without: demo exit $b; unit tests: ${t:-pass}; files: $(git diff --name-only -- . ':!seed' | tr '\n' ' ')"
