#!/usr/bin/env python3
"""Process one round of seeded breakages delivered by sub-agents.
usage: tools/round.py /tmp/seedN  [extra checks per property as C01=C05,C10 ...]
For every /tmp/seedN/<ID>/seed/d*/ : copy to /verif/seeded/<ID>-<next letter>, verify (tools/verify_seed2.sh),
run the owning check (+ extras) against a scratch worktree (tools/seedtest.sh). Prints one line per step and
writes /verif/.work/round-results.json."""
import glob, json, os, string, subprocess, sys
ROOT = os.path.dirname(os.path.dirname(os.path.abspath(__file__)))
src = sys.argv[1]
extra = dict(a.split("=") for a in sys.argv[2:])
results = {}
start = os.environ.get("ROUND_START", "")  # e.g. C07:d2 - resume there after an interruption
for pdir in sorted(glob.glob(os.path.join(src, "C??"))):
    pid = os.path.basename(pdir)
    for d in sorted(glob.glob(os.path.join(pdir, "seed", "d*"))):
        if start and "%s:%s" % (pid, os.path.basename(d)) < start:
            continue
        used = {os.path.basename(x).split("-")[1] for x in glob.glob(os.path.join(ROOT, "seeded", pid + "-*"))}
        letter = next(l for l in list(string.ascii_lowercase) + ["a" + x for x in string.ascii_lowercase] if l not in used)
        name = "%s-%s" % (pid, letter)
        dst = os.path.join(ROOT, "seeded", name)
        subprocess.run(["cp", "-r", d, dst], check=True)
        v = subprocess.run([os.path.join(ROOT, "tools", "verify_seed2.sh"), pdir, os.path.basename(d)], stdout=subprocess.PIPE, stderr=subprocess.STDOUT, text=True).stdout.strip().splitlines()
        vline = v[-1] if v else "?"
        print("== %s verify: %s" % (name, vline), flush=True)
        checks = [pid] + [c for c in extra.get(pid, "").split(",") if c]
        t = subprocess.run([os.path.join(ROOT, "tools", "seedtest.sh"), "seeded/" + name] + checks, stdout=subprocess.PIPE, stderr=subprocess.STDOUT, text=True).stdout
        lines = [l for l in t.splitlines() if l.startswith("seeded/")]
        for l in lines:
            print("   " + l, flush=True)
        try:
            meta = json.load(open(os.path.join(dst, "meta.json")))
        except Exception:
            meta = {}
        results[name] = {"verify": vline, "tests": lines, "summary": meta.get("summary", ""), "needs": meta.get("needs", "")}
os.makedirs(os.path.join(ROOT, ".work"), exist_ok=True)
json.dump(results, open(os.path.join(ROOT, ".work", "round-results%s.json" % ("-resumed" if start else "")), "w"), indent=1)
