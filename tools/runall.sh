#!/bin/sh
# usage: tools/runall.sh [tier] [seed] [ids...]  — run checks sequentially, print one status line each
tier=${1:-quick}; seed=${2:-1}; shift 2 2>/dev/null
ids=${@:-C01 C02 C03 C04 C05 C06 C07 C08 C09 C10 C11 C12 C13 C14 C15 C16 C17}
cd "$(dirname "$0")/.."
for c in $ids; do
  out=$(VERIF_SEED=$seed ./check $c --tier $tier 2>&1); rc=$?
  echo "$c rc=$rc $(echo "$out" | grep -E 'evaluations' | tail -1)"
  if [ $rc -ne 0 ]; then echo "$out" | grep -v '^KNOWN-FINDING' | head -15; fi
done
