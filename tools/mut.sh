#!/bin/sh
# usage: tools/mut.sh 'sed-expr' file  CHECK...   — apply a one-line mutation to /repo, run unit tests of the package + checks, revert.
set -u
expr="$1"; file="$2"; shift 2
cd /repo || exit 2
sed -i "$expr" "$file"
if git diff --quiet; then echo "MUTATION DID NOT APPLY"; exit 3; fi
git diff | head -20
( GOPROXY=off go build ./... && GOPROXY=off go test -vet=off -count=1 ./... 2>&1 | grep -v '^ok\|no test files' | head -5; echo "unit tests done" )
for c in "$@"; do ( cd /verif && ./check $c 2>&1 | grep -E 'VIOLATION|INCONCLUSIVE|evaluations' | head -3 ); done
git -C /repo checkout -- .
