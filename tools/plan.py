"""Per-property plan: rapid case counts per shard, shards, deadlines, the
stated non-triviality rule and the assumptions, shared by ./check (evidence)
and tools/genmanifest.py (MANIFEST.json)."""

COMMON_ASSUME = [
    "the crd binary and the harness are rebuilt from /repo's working tree at the start of the run",
    "oracles are independent of crd: theory package (intervals, keys, chord table), smfread (SMF reader from the spec), math/big rationals",
    "absence of violations is only established for the cases generated; generator bounds are stated in the rule",
]

NOT_APPLICABLE = {}

PLAN = {
    "C01": {
        "title": "write: every chord sounds exactly the pitches its degree, symbol and bass denote",
        "technique": "property-based differential testing (rapid) of `crd write` against an independent music-theory model, SMF decoded by an independent reader; bounded-exhaustive key x interval x symbol product in the thorough tier",
        "rule": "rapid-generated instances documents (1..12 instances, 40 in thorough; degree and bass = number 1..15 x every existing quality incl. doubly altered, prefix or suffix notation; 23 built-in symbols by display or long name; key settings on any instance incl. rests; --key flag in half of the cases) run through the real binary with --track 1; k-th run of note-ons must equal, as a multiset, bass + chord tones computed by theory. One evaluation = one chord. Non-trivial = chord in a non-C key, or altered/compound degree, or explicit bass, or non-triad symbol, or carrying a key change after instance 0; distinct by (key in force, degree, symbol, bass).",
        "assumptions": COMMON_ASSUME + ["chords are grouped as maximal runs of note-ons in the single track (crd strikes a chord, then releases it)", "all generated pitches lie in 43..111 by construction"],
        "level_text": "Exploration: generated instance documents through the real `crd write`, every chord compared with an independent theory model; thorough adds the complete key x interval(1..15) x symbol product. Right level because the property is a universally quantified input/output relation with a cheap exact oracle.",
        "level_note": "Trusted: harness theory tables (textbook interval sizes, conventional chord table), own SMF reader, own YAML emitter; rapid's generators. Not proved: inputs outside the generator bounds.",
        "exhaustive_claim": False,
        "quick": {"checks": 150, "shards": 16, "timeout": 600},
        "thorough": {"checks": 3000, "shards": 16, "timeout": 3000},
        "design_ref": "DESIGN.md section 3, C01",
    },
}
