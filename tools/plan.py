"""Per-property plan: rapid case counts per shard, shards, deadlines, the
stated non-triviality rule and the assumptions, shared by ./check (evidence)
and tools/genmanifest.py (MANIFEST.json)."""

COMMON_ASSUME = [
    "the crd binary and the harness are rebuilt from /repo's working tree at the start of the run",
    "oracles are independent of crd: theory package (intervals, keys, chord table), smfread (SMF reader from the spec), math/big rationals",
    "absence of violations is only established for the cases generated; generator bounds are stated in the rule",
]

NOT_APPLICABLE = {}

PLAN = {
    "C01": {
        "title": "write: every chord sounds exactly the pitches its degree, symbol and bass denote",
        "technique": "property-based differential testing (rapid) of `crd write` against an independent music-theory model, SMF decoded by an independent reader; bounded-exhaustive key x interval x symbol product in the thorough tier",
        "rule": "rapid-generated instances documents (1..12 instances, 40 in thorough; degree and bass = number 1..15 x every existing quality incl. doubly altered, prefix or suffix notation; 23 built-in symbols by display or long name; key settings on any instance incl. rests; --key flag in half of the cases) run through the real binary with --track 1; k-th run of note-ons must equal, as a multiset, bass + chord tones computed by theory. One evaluation = one chord. Non-trivial = chord in a non-C key, or altered/compound degree, or explicit bass, or non-triad symbol, or carrying a key change after instance 0; distinct by (key in force, degree, symbol, bass).",
        "assumptions": COMMON_ASSUME + ["chords are grouped as maximal runs of note-ons in the single track (crd strikes a chord, then releases it)", "all generated pitches lie in 43..111 by construction"],
        "level_text": "Exploration: generated instance documents through the real `crd write`, every chord compared with an independent theory model; thorough adds the complete key x interval(1..15) x symbol product. Right level because the property is a universally quantified input/output relation with a cheap exact oracle.",
        "level_note": "Trusted: harness theory tables (textbook interval sizes, conventional chord table), own SMF reader, own YAML emitter; rapid's generators. Not proved: inputs outside the generator bounds.",
        "exhaustive_claim": False,
        "quick": {"checks": 150, "shards": 16, "timeout": 600},
        "thorough": {"checks": 3000, "shards": 16, "timeout": 3000},
        "design_ref": "DESIGN.md section 3, C01",
    },
    "C02": {
        "title": "write: onsets, lengths and rests follow the written durations, gapless",
        "technique": "property-based testing (rapid) of `crd write` against an exact-rational (math/big) timing model with interval arithmetic at exact halves; notes paired per track by an independent SMF reader",
        "rule": "rapid documents of 1..10 instances (40 thorough), 35% rests, 1..4 fractions per instance with non-unit numerators, denominators from a pool mixing divisors of 960, non-divisors (7 9 11 13 1000 1921) and free 1..2000, at most two distinct denominators per instance and one numerator up to 3000 (inside that bound float rounding equals exact rounding except at exact halves, where both neighbours are admitted); settings/texts on rests; repeated identical chords back to back; --track 1..6. Checked: distinct onset ticks = chord starts of the model, every note lasts round(T x sum), all notes of a chord end together, rests emit nothing, per track no release after the next strike of the same pitch at a shared tick. One evaluation = one document. Non-trivial = a denominator not dividing 960, or >= 2 fractions, or a rest leading/trailing/consecutive/carrying a setting; distinct by document text + flags.",
        "assumptions": COMMON_ASSUME + ["every generated chord lasts >= 1 tick by construction so that chord starts are distinct", "total length stays below 2^28 ticks by construction"],
        "level_text": "Exploration: thousands of generated duration sequences through the real binary, every onset and length compared with exact rational arithmetic. Right level: the property is arithmetic over unbounded sequences; the oracle is exact and cheap.",
        "level_note": "Trusted: math/big, own SMF reader. The float-vs-exact argument bounds the generator (stated in the rule); durations outside it are not explored.",
        "quick": {"checks": 150, "shards": 16, "timeout": 600},
        "thorough": {"checks": 3000, "shards": 16, "timeout": 3000},
    },
    "C06": {
        "title": "Track count never changes the music; every track ends when the piece ends",
        "technique": "metamorphic property-based testing (rapid): `crd write --track N` vs `--track 1` on the same generated document, merged event multisets compared byte-wise; end-of-track ticks against the exact-rational total",
        "rule": "rapid documents (1..8 instances, 30 thorough; rests 35%, trailing rest forced in 40%; settings and texts anywhere) written with --track 1 and with 4 (8 thorough) track counts: always 2, then draws from 3..7 and 2..32. Merged multiset of (absolute tick, status, data, meta type, payload) without end-of-track must equal that of --track 1; every track's end-of-track tick must equal the exact total duration (rational model, trailing rests included). One evaluation = one document x its track counts. Non-trivial = contains a rest or a control change after tick 0; distinct by document + track list.",
        "assumptions": COMMON_ASSUME + ["the exact total is derived with the C02 timeline (either neighbour at exact halves)"],
        "level_text": "Exploration with a metamorphic oracle (two runs of the same binary) plus an exact-arithmetic oracle for the track length.",
        "level_note": "Trusted: own SMF reader, math/big. Track counts above 32 are not explored.",
        "quick": {"checks": 60, "shards": 16, "timeout": 600},
        "thorough": {"checks": 600, "shards": 16, "timeout": 3000},
    },
    "C07": {
        "title": "Tempo, meter, key-signature and text events: right value at the right time",
        "technique": "property-based testing (rapid) of `crd write` against a state-machine model of settings (flags, first instance, later instances), payloads from independent theory (key signatures) and the SMF specification",
        "rule": "rapid documents (1..10 instances, 30 thorough) with bpm (4..60000), meter (n/2^k, n 1..255, k 0..7), key (28 keys), dynamic and txt/lic/mrk texts (ASCII, YAML-significant, control and non-ASCII characters) present with 30-40% probability on every instance incl. rests, every subset of --bpm/--meter/--key/--velocity flags, --track 1..5; plus deterministic pieces: all six dynamics up and down, every key's signature. Checked: expected tempo/time-signature/key-signature statements present at the instance start with the right payload; every observed one restates the value in force; text/lyric/marker multiset exact (tick, type, bytes); velocity is a function of the dynamic in force and strictly increasing pp<p<mp<mf<f<ff. One evaluation = one document. Non-trivial = a setting after the first instance, or on a rest, or a flag competing with the first instance, or non-ASCII text; distinct by document + flags.",
        "assumptions": COMMON_ASSUME + ["instance starts come from the exact model; durations in this check are multiples of a quarter beat so no exact half occurs", "tempo payload: floor or round of 60,000,000/bpm accepted"],
        "level_text": "Exploration: generated histories of settings through the real binary against a small explicit state machine.",
        "level_note": "Trusted: theory key-signature arithmetic, own SMF reader. bpm < 4 and meters an SMF event cannot encode are outside the domain.",
        "quick": {"checks": 150, "shards": 16, "timeout": 600},
        "thorough": {"checks": 3000, "shards": 16, "timeout": 3000},
    },
    "C08": {
        "title": "Every file written is a well-formed Standard MIDI File",
        "technique": "property-based testing (rapid): every generated successful `crd write` output is parsed by an independent strict SMF reader written from the specification (validity predicate, not a single expected answer)",
        "rule": "rapid documents (1..10 instances, 40 thorough; interval numbers up to 64 so pitches leave the MIDI range; zero-tick chords forced in 20%; rests; settings; texts) x --track 1..40 x --instrument (empty, 127/128 bytes, multi-byte, control characters, random up to 300 runes) x --program 0..255; stdout or the -o file (30%). Checked: MThd length 6, format 0 iff one track, ntrks = --track, metrical division, chunk lengths add up to the file size, VLQ <= 4 bytes, running status, data bytes < 128, meta lengths (tempo 3, time signature 4, key signature 2 with sf -7..7, mi 0..1), exactly one end-of-track per track and last, per (channel,key) note-on/off balance never negative and zero at the end, tempo/time/key signature only in the first track. One evaluation = one document. Non-trivial = N >= 2, or out-of-range pitch, or explicit instrument/program, or a zero-tick chord; distinct by document + flags + channel read.",
        "assumptions": COMMON_ASSUME + ["--track above 40 is not explored (SMF allows 65535)"],
        "level_text": "Exploration with a validity predicate: strict independent parser over thousands of generated files.",
        "level_note": "Trusted: own reading of the SMF 1.0 specification in smfread.",
        "quick": {"checks": 120, "shards": 16, "timeout": 600},
        "thorough": {"checks": 2500, "shards": 16, "timeout": 3000},
    },
    "C09": {
        "title": "No input crashes or hangs crd; failures are signalled; nonsense is refused",
        "technique": "directed fault enumeration (every nonsense class x every channel embedded in rapid-generated valid contexts) plus structure-aware process fuzzing of every subcommand with a crash/hang/exit-status oracle; native go fuzz targets in the thorough tier",
        "rule": "see DESIGN.md C09",
        "assumptions": COMMON_ASSUME,
        "level": "fault_enumeration",
        "level_text": "Fault enumeration + fuzzing: each named class of meaningless input is injected through each channel it can arrive by, and arbitrary/mutated inputs are thrown at every subcommand; the oracle is termination, no crash, and exit status/stdout discipline.",
        "level_note": "Trusted: the OS process interface (exit status, signals), a 10 s watchdog re-run once before a hang is believed. `write play` is excluded (real-time playback). Not coverage-guided at process level.",
        "quick": {"checks": 60, "shards": 16, "timeout": 900},
        "thorough": {"checks": 1500, "shards": 16, "timeout": 3000},
    },
}
