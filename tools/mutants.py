#!/usr/bin/env python3
"""Sensitivity battery: deliberate breakages applied one at a time to a scratch
worktree of /repo (never to /repo itself; the worktree is removed at the end),
each checked against the unit tests and the named checks (VERIF_REPO=<worktree>).
Usage: tools/mutants.py [name ...]   Output: tools/mutants.result.txt"""
import os, re, subprocess, sys, time
REPO = "/tmp/w/mutants-%d" % os.getpid()
ROOT = os.path.dirname(os.path.dirname(os.path.abspath(__file__)))

# name, file, old, new, checks
M = [
 ("C01-bass-two-octaves", "play/key.go", "MIDINoteNumber(note.Octave(1).Semitone()))", "MIDINoteNumber(note.Octave(2).Semitone()))", "C01 C10"),
 ("C01-flags-on-every-instance", "cmd/write.go", "\t\tif i == 0 {\n\t\t\tif err := overrideInstanceFromFlags", "\t\tif i >= 0 {\n\t\t\tif err := overrideInstanceFromFlags", "C01 C07 C05"),
 ("C01-extends-dropped-when-own-attrs", "chord/map.go", 'if x := c.Extends; x != "" {\n\t\tif xs, ok', 'if x := c.Extends; x != "" && len(c.Attributes) < 2 {\n\t\tif xs, ok', "C01 C16"),
 ("C01-key-accidental-ignored-for-flats", "op/key.go", "return k.Name.Semitone() + k.Accidental.AsNoteAccidental().Semitone()", "if k.Accidental == Flat && k.Minor {\n\t\treturn k.Name.Semitone()\n\t}\n\treturn k.Name.Semitone() + k.Accidental.AsNoteAccidental().Semitone()", "C01 C05"),
 ("C02-floor-instead-of-round", "midix/write.go", "t := math.Round(float64(w.quoaterNoteTicks) * multiplier)", "t := math.Floor(float64(w.quoaterNoteTicks) * multiplier)", "C02 C10"),
 ("C02-rest-delta-assigned", "midix/write.go", "func (w *MIDIWriter) addTickDelta(t uint32) { w.tickDelta = addTicks(w.tickDelta, t) }", "func (w *MIDIWriter) addTickDelta(t uint32) { w.tickDelta = t }", "C02 C06"),
 ("C03-negative-distance-not-wrapped", "op/scale.go", "\tif s < 0 {\n\t\ts += oct\n\t}", "\tif s < -1 {\n\t\ts += oct\n\t}", "C03 C05"),
 ("C03-bass-from-tonic", "astconv/conv.go", "baseDegree, err := rootScaleNote.GetDegree(baseScaleNote, baseTendency == op.Sharp)", "baseDegree, err := c.scale.Tonic().GetDegree(baseScaleNote, baseTendency == op.Sharp)", "C03 C05"),
 ("C04-symbol-swallows-semicolon", "input/ast/lexer.go", 'strings.ContainsRune("/[_;=", r)', 'strings.ContainsRune("/[_=", r)', "C04 C11"),
 ("C04-metadata-mode-not-left", "input/ast/lexer.go", "\tcase '}':\n\t\tlex.SetExpectMetadata(false)", "\tcase '}':\n\t\tlex.SetExpectMetadata(true)", "C04"),
 ("C04-grammar-edited-not-regenerated", "input/ast/chords.y", "  | values COMMA value {", "  | values COMMA value COMMA {\n    $$ = $1\n  }\n  | values COMMA value {", "C04"),
 ("C05-scale-changed-after-chord", "astconv/conv.go", None, None, "C05 C11"),
 ("C06-last-track-misses-delay", "midix/track.go", "\t\tif i == trackNo {\n\t\t\tcontinue\n\t\t}", "\t\tif i == trackNo || (i == len(ts.list)-1 && i > 3) {\n\t\t\tcontinue\n\t\t}", "C06 C08"),
 ("C07-tempo-does-not-consume-delta", "midix/write.go", "\tw.addMeta(w.getTickDeltaAndClear(), &MetaTempo{", "\tw.addMeta(0, &MetaTempo{", "C07 C06"),
 ("C07-dynamics-swapped", "op/velocity.go", "\t\tMezzoPiano: 64,\n\t\tMezzoForte: 85,", "\t\tMezzoPiano: 85,\n\t\tMezzoForte: 64,", "C07"),
 ("C07-lyric-marker-swapped", "play/args.go", "if x := v.Get(input.MetaLyricKey); x != \"\" {\n\t\t\tw.Lyric(x)", "if x := v.Get(input.MetaLyricKey); x != \"\" {\n\t\t\tw.Marker(x)", "C07 C10"),
 ("C07-flat-flag-from-sharps", "play/args.go", "isFlat := scale.Flat > 0", "isFlat := scale.Sharp == 0", "C07 C05"),
 ("C08-noteoff-wrong-key-for-duplicates", "midix/write.go", "\t\tw.addFixed(0, i, &NoteOff{\n\t\t\tChannel: 0,\n\t\t\tKey:     k,", "\t\tw.addFixed(0, i, &NoteOff{\n\t\t\tChannel: 0,\n\t\t\tKey:     k - uint8(i/5),", "C08 C02"),
 ("C08-close-skips-last-of-many-tracks", "midix/track.go", "\tfor i := range c.set.Len() {\n\t\t// every track", "\tfor i := range c.set.Len() {\n\t\tif i > 6 {\n\t\t\tbreak\n\t\t}\n\t\t// every track", "C08 C06"),
 ("C09-exit-status-lost", "cmd/main.go", "\t\tos.Exit(1)\n", "\t\t_ = os.Stderr\n", "C09 C12"),
 ("C09-zero-duration-accepted", "note/value.go", "\tif v.Num < 1 {\n\t\treturn errorx.Invalid(\"Value should have positive value\")\n\t}\n", "", "C09"),
 ("C09-unknown-dynamic-flag-ignored", "cmd/flag.go", "\tif d == op.UnknownDynamicSign {\n\t\treturn d, errorx.Invalid(\"velocity %s\", v)\n\t}", "\tif d == op.UnknownDynamicSign {\n\t\treturn d, errorx.ErrOK\n\t}", "C09"),
 ("C10-key-printed-without-minor-for-sharps", "op/key.go", "\tif k.Minor {\n\t\tss = append(ss, minorKeyMark)", "\tif k.Minor && !(k.Accidental == Sharp && k.Name == note.D) {\n\t\tss = append(ss, minorKeyMark)", "C10 C05"),
 ("C10-doubly-flat-parsed-as-diminished", "note/degree.go", "\t\t{\n\t\t\tsymbol: degreeNameDoublyFlatted,\n\t\t\tname:   DoublyDiminishedCoerceDegree,\n\t\t},\n\t\t{\n\t\t\tsymbol: degreeNameDoublySharped,\n\t\t\tname:   DoublyAugmentedCoerceDegree,\n\t\t},\n\t\t{\n\t\t\tsymbol: degreeNameDiminished,\n\t\t\tname:   DiminishedCoerceDegree,\n\t\t},", "\t\t{\n\t\t\tsymbol: degreeNameDiminished,\n\t\t\tname:   DiminishedCoerceDegree,\n\t\t},\n\t\t{\n\t\t\tsymbol: degreeNameDoublyFlatted,\n\t\t\tname:   DoublyDiminishedCoerceDegree,\n\t\t},\n\t\t{\n\t\t\tsymbol: degreeNameDoublySharped,\n\t\t\tname:   DoublyAugmentedCoerceDegree,\n\t\t},", "C10 C15 C01"),
 ("C11-unicode-flat-not-normalised", "astconv/conv.go", "\tcase \"♭\":\n\t\treturn \"b\"\n", "", "C11"),
 ("C12-listing-unsorted", "op/scale.go", "\tslices.SortFunc(scales, func(a, b *Scale) int {\n\t\treturn strings.Compare(a.Key.String(), b.Key.String())\n\t})\n", "\t_ = slices.Sort[[]string]\n\t_ = strings.Compare\n", "C12"),
 ("C12-dash-not-stdin", "cmd/io.go", '\tcase "-", "":\n\t\treturn f(os.Stdin)', '\tcase "":\n\t\treturn f(os.Stdin)', "C12"),
 ("C13-flat-order-swapped", "op/scale.go", "\t\tnote.A,\n\t\tnote.D,\n\t\tnote.G,", "\t\tnote.D,\n\t\tnote.A,\n\t\tnote.G,", "C13 C17 C07"),
 ("C14-parallel-sign", "op/circle.go", "\tif key.Minor {\n\t\tdelta = 3\n\t} else {\n\t\tdelta = -3\n\t}", "\tif key.Minor {\n\t\tdelta = 3\n\t} else {\n\t\tdelta = 3\n\t}", "C14"),
 ("C14-ring-negative-wrap", "util/ring.go", "\tif index < 0 {\n\t\tindex += len(r)\n\t}", "\tif index < -len(r) {\n\t\tindex += len(r)\n\t}", "C14"),
 ("C15-sharp-preference-swapped", "note/note.go", "\tif precedeSharp {\n\t\treturn find(Natural, Sharp, Flat)\n\t} else {\n\t\treturn find(Natural, Flat, Sharp)\n\t}", "\tif precedeSharp {\n\t\treturn find(Natural, Flat, Sharp)\n\t} else {\n\t\treturn find(Natural, Sharp, Flat)\n\t}", "C15"),
 ("C15-compound-octave-constant", "note/degree.go", "return v + Semitone(octaves)*degreeSemitoneMap[perfect8], true", "if octaves > 2 {\n\t\t\treturn v + Semitone(octaves)*degreeSemitoneMap[major7], true\n\t\t}\n\t\treturn v + Semitone(octaves)*degreeSemitoneMap[perfect8], true", "C15 C10"),
 ("C16-m7b5-wrong-fifth", "chord/chord.yml", '    display: "m7b5"\n  extends: DiminishedTriad', '    display: "m7b5"\n  extends: MinorTriad', "C16 C17 C01"),
 ("C16-dangling-extends-unchecked", "chord/map.go", "\t\t\tif _, ok := m.chords[x]; !ok {\n\t\t\t\terrs = append(errs, errorx.Invalid(\"Chord %s Extends %s not found\", c.Name, x))\n\t\t\t}", "\t\t\tif _, ok := m.chords[x]; !ok && len(c.Attributes) == 0 {\n\t\t\t\terrs = append(errs, errorx.Invalid(\"Chord %s Extends %s not found\", c.Name, x))\n\t\t\t}", "C16"),
 ("C16-cycle-check-only-self", "chord/map.go", "\t\tif seen[p.Name] {\n\t\t\treturn true\n\t\t}", "\t\tif p.Name == c.Name && p.Extends == c.Name {\n\t\t\treturn true\n\t\t}\n\t\tif len(seen) > 64 {\n\t\t\treturn false\n\t\t}", "C16 C09"),
 ("C17-dominant-without-underscore", "op/diatonic.go", '\t\t"maj7",\n\t\t"_7",\n\t\t"m7",\n\t\t"m7b5",\n\t}', '\t\t"maj7",\n\t\t"7",\n\t\t"m7",\n\t\t"m7b5",\n\t}', "C17"),
 ("C17-minor-names-swapped", "op/diatonic.go", '\t\t\t"m",\n\t\t\t"dim",\n\t\t\t"",\n\t\t\t"m",\n\t\t\t"m",\n\t\t\t"",\n\t\t\t"",', '\t\t\t"m",\n\t\t\t"dim",\n\t\t\t"",\n\t\t\t"m",\n\t\t\t"",\n\t\t\t"m",\n\t\t\t"",', "C17"),
]

def sh(cmd, cwd=None, timeout=1800):
    p = subprocess.run(cmd, shell=True, cwd=cwd, stdout=subprocess.PIPE, stderr=subprocess.STDOUT, text=True, timeout=timeout)
    return p.returncode, p.stdout

def special_c05(path):
    s = open(path).read()
    old = """		if err := c.changeScale(x); err != nil {
			return nil, err
		}

		values, err := c.valuesConverter.Convert(v.Values)
		if err != nil {
			return nil, fmt.Errorf("%w: ChordValues", err)
		}
		x.Values = values

		chod, err := c.chordConverter.Convert(v)
		if err != nil {
			return nil, fmt.Errorf("%w: Chord", err)
		}
		x.Chord = chod
"""
    new = """		values, err := c.valuesConverter.Convert(v.Values)
		if err != nil {
			return nil, fmt.Errorf("%w: ChordValues", err)
		}
		x.Values = values

		chod, err := c.chordConverter.Convert(v)
		if err != nil {
			return nil, fmt.Errorf("%w: Chord", err)
		}
		x.Chord = chod
		if err := c.changeScale(x); err != nil {
			return nil, err
		}
"""
    assert old in s
    open(path, "w").write(s.replace(old, new, 1))

def main():
    want = sys.argv[1:]
    out = open(os.path.join(ROOT, "tools", "mutants.result.txt"), "a")
    os.makedirs("/tmp/w", exist_ok=True)
    rc, st = sh("git -C /repo worktree add -q --detach %s HEAD" % REPO)
    if rc != 0:
        print("cannot create the scratch worktree:", st); sys.exit(2)
    head = sh("git -C /repo rev-parse --short HEAD")[1].strip()
    out.write("# run on /repo %s, /verif %s\n" % (head, sh("git -C %s rev-parse --short HEAD" % ROOT)[1].strip()))
    try:
        run(want, out)
    finally:
        sh("git -C /repo worktree remove --force %s" % REPO)
    out.close()


def run(want, out):
    for name, f, old, new, checks in M:
        if want and name not in want:
            continue
        path = os.path.join(REPO, f)
        try:
            if old is None:
                special_c05(path)
            else:
                s = open(path).read()
                if old not in s:
                    print(name, "DID NOT APPLY"); out.write("%s | did not apply\n" % name); continue
                open(path, "w").write(s.replace(old, new, 1))
            rc, b = sh("GOPROXY=off go build ./... 2>&1 | tail -3", REPO)
            rc2, t = sh("GOPROXY=off go test -vet=off -count=1 ./... 2>&1 | grep -v 'no test files' | grep -v '^ok' | head -5", REPO)
            units = "unit tests pass" if not (b.strip() or t.strip()) else "UNIT TESTS FAIL/BUILD: " + (b + t).strip().replace("\n", " / ")[:200]
            res = []
            for c in checks.split():
                t0 = time.time()
                rc, o = sh("VERIF_REPO=%s ./check %s 2>&1" % (REPO, c), ROOT)
                sigs = set()
                for m in re.finditer(r'replay=(\S+)', o):
                    try:
                        import json
                        sigs.add(json.load(open(m.group(1)))["sig"])
                    except Exception:
                        pass
                res.append("%s:%s%s(%.0fs)" % (c, {0: "MISSED", 1: "caught", 2: "inconclusive"}.get(rc, rc), (" " + ",".join(sorted(sigs))[:80]) if sigs else "", time.time() - t0))
            line = "%s | %s | %s" % (name, units, " ".join(res))
            print(line, flush=True)
            out.write(line + "\n"); out.flush()
        finally:
            sh("git checkout -- .", REPO)
            sh("rm -rf %s/.work/scratch-replays/%s" % (ROOT, os.path.basename(REPO)))

if __name__ == "__main__":
    main()
